"""C04 — PreGER spectral merging (fdd.SD_PreGER; FDD_MS / EFDD_MS / pLSCF_MS) is consistent with the
single-setup spectral matrix."""
import inspect
from fractions import Fraction

import numpy as np

import msgather
from common import ModelError, R, cfl, fl, max_rel_err

from common import wiring_pre_build as pre_build  # noqa: E402,F401

LEAN_MODULES = ["PyomaVerif.Props.C04", "PyomaVerif.Mutants.C04", "PyomaVerif.Props.WiringRun", "PyomaVerif.Props.C04C13",
                "PyomaVerif.Props.C04C06", "PyomaVerif.Props.C04Inv", "PyomaVerif.Props.WiringStore", "PyomaVerif.Props.WiringClass", "PyomaVerif.Props.WiringCalls", "PyomaVerif.Props.C04Split",
                "PyomaVerif.Props.C04Gain"]
THEOREMS = [
    # depth round 2: the gain clause over the executable checked model with its own inverse (Props/C04Gain.lean)
    "PV.C04.C04_gain_line",
    "PV.C04.C04_checked_lines",
    "PV.C04.C04_gain_checked",
    "PV.C04.exGainChecked_ok",
    # depth round: the driver's inverse gaussInv, verified as written, satisfies InvContract (Props/C04Inv.lean)
    "PV.C04.C04_gaussInv_sound",
    "PV.C04.C04_gaussInv_complete",
    "PV.C04.C04_gaussInv_none_iff",
    "PV.C04.C04_gaussInv_contract",
    "PV.C04.C04_identical_refs_checked",
    # the reference/roving split composed with the merging: user's datasets + ref_ind (any order) -> pre_multisetup -> every
    # SD_est call of SD_PreGER -> merged == single-setup matrix (Props/C04Split.lean, Model/MsGather.lean); the object's data
    # after every preprocessing step is that split (PV.C03Split.C03_data_every_step, through PV.C14.C14_invariant_multi)
    "PV.C04Split.C04_identical_refs_rows",
    "PV.C04Split.C04_handover",
    "PV.C04Split.C04_identical_refs_split",
    "PV.C04Split.C04_identical_refs_split_sd",
    "PV.C04Split.sd_per_ne",
    "PV.C04Split.sd_cor_ne",
    "PV.MsGather.preMultisetupRec_ok",
    "PV.MsGather.vstack_gather",
    # C04 o C06 (o C13): multi-setup FDD end to end (Props/C04C06.lean)
    "PV.C04C06.sdEst_rank_one_entry",
    "PV.C04C06.sdEst_superposition",
    "PV.C04C06.sdEst_rows_of_ref",
    "PV.C04C06.C04C06_transmissibility",
    "PV.C04C06.C04C06_setup_rank_one",
    "PV.C04C06.C04C06_ref_block_singular",
    "PV.C04C06.C04C06_linalg_error",
    "PV.C04C06.C04C06_merged_rank_one",
    "PV.C04C06.C04C06_one_ref_index_error",
    "PV.C04C06.C04C06_shape_at_line",
    "PV.C04C06.ex_shape_per",
    "PV.C04C06.ex_shape_cor",
    "PV.C04C06.ex_leftInv2",
    "PV.C04C13.sdEst_shape",
    "PV.C04C13.sdEst_pairwise",
    "PV.C04C13.sdEst_homog",
    "PV.C04C13.C04_identical_refs_per",
    "PV.C04C13.C04_identical_refs_cor",
    "PV.C04C13.C04_gain_sd",
    "PV.C04C13.C04_gain_per",
    "PV.C04C13.C04_gain_cor",
    "PV.C04C13.ex_per_ne",
    "PV.C04C13.ex_cor_ne",
    # call-site wiring of the class layer, regenerated from /repo on every run (translate_wiring.py)
    "PV.WiringRun.C04_run_spectral_ms",
    "PV.WiringStore.C04_run_result_store_ms",
    "PV.WiringClass.C04_run_own",
    "PV.WiringCalls.C04_ms_run_calls",
    "PV.WiringCalls.C05_plscf_run_calls",
    "PV.C04.C04_shape",
    "PV.C04.C04_blocks",
    "PV.C04.C04_identical_refs",
    "PV.C04.C04_gain",
    "PV.C04.C04_calls",
    "PV.C04.C04_checked_ok",
    "PV.C04.C04_run_params",
    "PV.Mutants.C04.var_none_eq",
    "PV.Mutants.C04.fixed_identical_refs_ok",
    "PV.Mutants.C04.inv2_ok",
    "PV.Mutants.C04.old_calls_default_pov",
    "PV.Mutants.C04.old_identical_refs_fails",
    "PV.Mutants.C04.old_ok_at_default",
    "PV.Mutants.C04.noinv_identical_refs_fails",
    "PV.Mutants.C04.nomean_identical_refs_fails",
    "PV.Mutants.C04.revorder_identical_refs_fails",
]
RULE = (
    "correspondence: fdd.SD_PreGER (and FDD_MS/EFDD_MS/pLSCF_MS.run through MultiSetup_PreGER) run in-process with "
    "fdd.SD_est wrapped; every logged call (dt, nxseg, method, pov, row identity and shapes of both arguments, freq, Sy as "
    "exact Gaussian rationals) is the estimator table of the Lean model, which recomputes the merged matrix exactly "
    "(complex inverse by exact elimination) and emits the call trace it expects; trace and freq compared exactly, values at "
    "1e-9 of the largest entry when every reference block has cond < 1e5 (else counted as skipped), exceptions on a "
    "malformed stream (no setups, unknown method, ragged records, differing reference counts, duplicated reference "
    "channel); the hand-over from the user's datasets and ref_ind (op ms_gather on symbolic datasets): MultiSetup_PreGER.data "
    "and both arguments of every SD_est call through the three classes, entry by entry. oracle: one recording cut into 2..4 setups with 1..3 shared references anywhere in the channel lists, "
    "per-setup gains, both estimators, nxseg 64..1024, pov in {0,.25,.5,.75}: merged == mean(g^2) * single-setup "
    "SD_est([refs; rov...], refs) at 1e-8 of the largest entry, same grid; gain relation on independent recordings whose "
    "lengths differ between the setups (reference block == UNWEIGHTED mean of the setups' reference spectra); stream "
    "SD_PreGER[lengths differ] (values with per-setup Ndat), [exception class] (class name of every raised exception, "
    "LinAlgError for a duplicated or dead reference channel). "
    "distinct = distinct (method, nxseg, pov, n_ref, roving counts, via) configurations"
)
EXTRA_TRUSTED = [
    "np.linalg.inv returns a left inverse of an invertible block (the model's `inv` parameter; the driver's exact "
    "stand-in gaussInv is proved sound and complete over any field - C04_gaussInv_contract - and additionally re-checks "
    "W*G = 1 on every matrix; compared with np.linalg.inv at 1e-12 in stream np.linalg.inv[stand-in])",
    "fdd.SD_est is the estimator parameter `sd` (its pairing/bilinearity is C13's subject; the oracle exercises it here)",
]
ASSUMPTIONS = [
    "numpy vstack/hstack/slice-clipping/moveaxis semantics are mirrored by Mat.vstack2/vstackFn, Ten3.hstack/head01/"
    "tail0head1/moveaxis02 (validated by the correspondence)",
    "float 1/fs equals the correctly rounded exact quotient (checked on every logged call)",
]

POVS = (0.0, 0.25, 0.5, 0.75)
WORST = {"corr": 0.0, "oracle": 0.0, "gain": 0.0}  # measured margins, reported in the evidence notes


def _fdd():
    from pyoma2.functions import fdd

    return fdd


# ----------------------------------------------------------------------------- SD_est wrapper
class SdLog:
    """wraps fdd.SD_est (and fdd.SD_PreGER) in this process and logs every call"""

    def __init__(self):
        self.fdd = _fdd()
        self.calls = []
        self.preger = []

    def __enter__(self):
        self.orig = self.fdd.SD_est
        self.orig_pg = self.fdd.SD_PreGER
        sig = inspect.signature(self.orig)
        sig_pg = inspect.signature(self.orig_pg)

        def wrap(*a, **kw):
            ba = sig.bind(*a, **kw)
            ba.apply_defaults()
            out = self.orig(*a, **kw)
            rec = dict(ba.arguments)
            rec["freq"], rec["S"] = out
            self.calls.append(rec)
            return out

        def wrap_pg(*a, **kw):
            ba = sig_pg.bind(*a, **kw)
            ba.apply_defaults()
            rec = dict(ba.arguments)
            self.preger.append(rec)
            out = self.orig_pg(*a, **kw)
            rec["out"] = out
            return out

        self.fdd.SD_est = wrap
        self.fdd.SD_PreGER = wrap_pg
        return self

    def __exit__(self, *exc):
        self.fdd.SD_est = self.orig
        self.fdd.SD_PreGER = self.orig_pg
        return False


def _cten(S):
    S = np.asarray(S)
    return [[[[R(z.real), R(z.imag)] for z in row] for row in plane] for plane in S.astype(complex)]


def _mname(m):
    return m if m in ("per", "cor") else "other"


class Ids:
    def __init__(self):
        self.d = {}

    def __call__(self, row):
        return self.d.setdefault(np.ascontiguousarray(row, dtype=float).tobytes(), len(self.d))

    def rows(self, A):
        return [self(r) for r in np.asarray(A)]


def model_input(Y, fs, nxseg, method, pov, calls, via="fn"):
    ids = Ids()
    setups = [
        {"ref": ids.rows(s["ref"]), "mov": ids.rows(s["mov"]), "ref_c": int(s["ref"].shape[1]), "mov_c": int(s["mov"].shape[1])}
        for s in Y
    ]
    dtq = Fraction(1) / Fraction(fs)
    cl = []
    for c in calls:
        dt = float(c["dt"])
        cl.append(
            {
                "dt": R(dtq) if float(dtq) == dt else R(dt),
                "nxseg": int(c["nxseg"]),
                "method": str(c["method"]),
                "pov": R(c["pov"]),
                "a": ids.rows(c["Yall"]),
                "a_c": int(c["Yall"].shape[1]),
                "b": ids.rows(c["Yref"]),
                "b_c": int(c["Yref"].shape[1]),
                "freq": [R(f) for f in c["freq"]],
                "S": _cten(c["S"]),
            }
        )
    return {"fs": R(fs), "nxseg": int(nxseg), "method": str(method), "pov": R(pov), "setups": setups, "calls": cl, "via": via}, cl


def trace_equal(mtrace, logged, fs):
    """model's expected calls vs the logged calls (already in model-input form): exact"""
    if len(mtrace) != len(logged):
        return False, f"{len(mtrace)} expected calls, {len(logged)} logged"
    for k, (m, l) in enumerate(zip(mtrace, logged)):
        for key in ("nxseg", "a", "a_c", "b", "b_c"):
            if m[key] != l[key]:
                return False, f"call {k}: {key} {m[key]} != {l[key]}"
        if m["method"] != _mname(l["method"]):
            return False, f"call {k}: method {m['method']} != {l['method']}"
        if Fraction(m["pov"]) != Fraction(l["pov"]):
            return False, f"call {k}: pov expected {float(Fraction(m['pov']))}, SD_est got {float(Fraction(l['pov']))}"
        if Fraction(m["dt"]) != Fraction(l["dt"]):
            return False, f"call {k}: dt {m['dt']} != {l['dt']}"
    return True, ""


def ref_cond(calls, n_ref):
    """largest condition number of the reference blocks the code inverts"""
    worst = 1.0
    for c in calls[0::2]:
        S = np.asarray(c["S"])
        B = S[:n_ref, :n_ref]
        if B.shape[0] != B.shape[1] or B.size == 0:
            return float("inf")
        for ff in range(B.shape[2]):
            try:
                worst = max(worst, float(np.linalg.cond(B[:, :, ff])))
            except Exception:
                return float("inf")
    return worst


def inv_raises(calls, n_ref):
    """does np.linalg.inv raise LinAlgError on one of the reference blocks the code hands to it"""
    for c in calls[0::2]:
        B = np.asarray(c["S"])[:n_ref, :n_ref]
        if B.ndim != 3 or B.shape[0] != B.shape[1] or B.size == 0:
            continue
        for ff in range(B.shape[2]):
            try:
                np.linalg.inv(B[:, :, ff])
            except np.linalg.LinAlgError:
                return True
    return False


def compare(ctx, fn, Y, fs, nxseg, method, pov, log, impl, via, key, tol=1e-9, condmax=1e5):
    """impl: ('ok', freq, Sy) or ('raise', exc)"""
    inp, logged = model_input(Y, fs, nxseg, method, pov, log.calls, via)
    small = {k: inp[k] for k in ("fs", "nxseg", "method", "pov", "setups", "via")}
    try:
        out = ctx.model("sd_preger", **inp)
    except ModelError as e:
        ctx.corr(fn, False, small, f"model error: {e}", impl[0], key)
        return
    if impl[0] == "raise":
        if type(impl[1]).__name__ == "LinAlgError" and "raise" not in out and Y:
            # numerically singular reference block: in exact arithmetic it need not be singular
            if not ref_cond(log.calls, Y[0]["ref"].shape[0]) < condmax:
                ctx.skipped += 1
                ctx.count("corr_skipped_cond")
                return
        ok = "raise" in out
        if ok:  # calls made before the exception must be a prefix of the expected ones
            ok, _ = trace_equal(out["trace"][: len(logged)], logged, fs)
        ctx.corr(fn, ok, small, out.get("raise", "no exception"), repr(impl[1]), key)
        ctx.count("corr_raise")
        if ok:
            # depth round 2: the exception CLASS (the model's message starts with the class name numpy/Python raise:
            # IndexError, ValueError, AxisError, LinAlgError) - `try inv except pinv`, or a guard raising another
            # class, is a difference
            mcls = out["raise"].split(":")[0].strip()
            icls = type(impl[1]).__name__
            ctx.corr(fn + "[exception class]", mcls == icls, small, mcls, icls, ("exc", mcls) + tuple(key[:1]))
            ctx.count(f"corr_raise_{icls}")
        return
    _, freq, Sy = impl
    tr_ok, why = trace_equal(out["trace"], logged, fs)
    if not tr_ok:
        ctx.corr(fn, False, small, "trace: " + why, "logged SD_est calls", key)
        return
    if "raise" in out and out["raise"].startswith("LinAlgError") and Y:
        # depth round 2: np.linalg.inv ITSELF raises on a block the code inverts (recorded LAPACK behaviour: exact zero
        # pivot) -> a returned value means the exception was swallowed or the inverse replaced
        if inv_raises(log.calls, Y[0]["ref"].shape[0]):
            ctx.corr(fn + "[exception class]", False, small, out["raise"],
                     "returned a value although np.linalg.inv raises LinAlgError on a reference block", ("exc", "LinAlgError", "swallowed"))
            return
        # exactly singular in the model, merely ill-conditioned in floating point
        if not ref_cond(log.calls, Y[0]["ref"].shape[0]) < condmax:
            ctx.skipped += 1
            ctx.count("corr_skipped_cond")
            return
    if "raise" in out or out.get("unlogged", 1) != 0:
        ctx.corr(fn, False, small, "raise " + out.get("raise", "") + f" unlogged={out.get('unlogged')}", "returned a value", key)
        return
    mfreq = np.array([fl(f) for f in out["freq"]])
    if list(out["shape"]) != list(np.shape(Sy)) or not np.array_equal(mfreq, np.asarray(freq, dtype=float)):
        ctx.corr(fn, False, small, {"shape": out["shape"], "nfreq": len(mfreq)}, {"shape": list(np.shape(Sy)), "nfreq": len(freq)}, key)
        return
    n_ref = Y[0]["ref"].shape[0]
    cond = ref_cond(log.calls, n_ref)
    if not cond < condmax:
        ctx.skipped += 1
        ctx.count("corr_skipped_cond")
        # the trace, freq and shape were still compared
        ctx.corr(fn + "[trace]", True, small, None, None, key)
        return
    M = np.array([[[cfl(z) for z in row] for row in plane] for plane in out["Sy"]], dtype=complex).reshape(out["shape"])
    err = max_rel_err(Sy, M)
    WORST["corr"] = max(WORST["corr"], err)
    ctx.corr(fn, err <= tol, small, {"max_rel_err": err, "cond": cond}, "Sy", key)
    ctx.count("corr_values")


# ----------------------------------------------------------------------------- generators
def gen_setups(ctx, nxmax, identical_refs=None, nxmin=8, varlen=False):
    """independent random setups for the correspondence (small sizes); varlen: every setup has its own record length"""
    rng = ctx.rng
    g = ctx.nprng()
    n = rng.randint(1, 4)
    n_ref = rng.randint(1, 3)
    nxseg = rng.choice([x for x in (8, 12, 16, 24, 32, 64) if nxmin <= x <= nxmax])
    N = rng.randint(4, 9) * nxseg + rng.randint(0, nxseg - 1)
    same = rng.random() < 0.4 if identical_refs is None else identical_refs
    ref0 = g.standard_normal((n_ref, N))
    Y = []
    same = same and not varlen
    for _ in range(n):
        nm = rng.randint(1, 3)
        if varlen:  # Ndat differs between setups (SD_est runs per setup; only the segment length is shared)
            N = rng.randint(4, 9) * nxseg + rng.randint(0, nxseg - 1)
        ref = ref0.copy() if same else g.standard_normal((n_ref, N))
        mix = g.standard_normal((nm, n_ref))
        mov = mix @ ref + g.standard_normal((nm, N))
        if rng.random() < 0.5:
            # per-setup amplitude anywhere between 1e-8 and 1e8 (units of the sensors; the merge is scale-covariant)
            s = 10.0 ** rng.uniform(-8, 8)
            ref, mov = s * ref, s * mov
        # the keys' insertion order carries no meaning
        Y.append({"ref": ref, "mov": mov} if rng.random() < 0.6 else {"mov": mov, "ref": ref})
    fs = rng.choice([1.0, 10.0, 100.0, 128.0, 51.2, 1000.0, 3.0, 0.7, round(rng.uniform(0.5, 500), 3)])
    method = rng.choice(["per", "cor"])
    pov = rng.choice([0.0, 0.25, 0.5, 0.75, 0.1, 0.6, round(rng.uniform(0, 0.9), 3)])
    return Y, fs, nxseg, method, pov


def run_fn(Y, fs, nxseg, method, pov, kwstyle=0):
    fdd = _fdd()
    with SdLog() as log:
        try:
            if kwstyle == 0:
                freq, Sy = fdd.SD_PreGER(Y, fs, nxseg=nxseg, method=method, pov=pov)
            elif kwstyle == 1:
                freq, Sy = fdd.SD_PreGER(Y, fs, nxseg, pov, method)
            else:
                freq, Sy = fdd.SD_PreGER(Y=Y, fs=fs, pov=pov, method=method, nxseg=nxseg)
            impl = ("ok", freq, Sy)
        except Exception as e:  # noqa: BLE001
            impl = ("raise", e)
    return log, impl


def datasets_of(Y, rng):
    """datasets / ref_ind for MultiSetup_PreGER whose pre-processing gives back Y:
    the reference channels go to arbitrary positions of each setup's channel list"""
    datasets, ref_ind = [], []
    for s in Y:
        n_ref, nm = s["ref"].shape[0], s["mov"].shape[0]
        pos = sorted(rng.sample(range(n_ref + nm), n_ref))
        rng.shuffle(pos)  # reference order need not be increasing
        cols = [None] * (n_ref + nm)
        for k, p in enumerate(pos):
            cols[p] = s["ref"][k]
        it = iter(s["mov"])
        for p in range(n_ref + nm):
            if cols[p] is None:
                cols[p] = next(it)
        datasets.append(np.array(cols).T.copy())
        ref_ind.append(pos)
    return datasets, ref_ind


def run_class(cls_name, Y, fs, nxseg, method, pov, rng):
    """FDD_MS / EFDD_MS / pLSCF_MS through MultiSetup_PreGER.run_all"""
    from pyoma2.algorithms.fdd import EFDD_MS, FDD_MS
    from pyoma2.algorithms.plscf import pLSCF_MS
    from pyoma2.setup.multi import MultiSetup_PreGER

    datasets, ref_ind = datasets_of(Y, rng)
    ms = MultiSetup_PreGER(fs, ref_ind, datasets)
    if cls_name == "FDD_MS":
        alg = FDD_MS(name="a", nxseg=nxseg, method_SD=method, pov=pov)
    elif cls_name == "EFDD_MS":
        alg = EFDD_MS(name="a", nxseg=nxseg, method_SD=method, pov=pov)
    else:
        alg = pLSCF_MS(name="a", ordmax=4, nxseg=nxseg, method_SD=method, pov=pov)
    ms.add_algorithms(alg)
    with SdLog() as log:
        try:
            ms.run_all()
            impl = ("ok", alg.result.freq, alg.result.Sy)
        except Exception as e:  # noqa: BLE001
            # the spectral head may have completed although a later stage failed
            if log.preger and "out" in log.preger[-1]:
                impl = ("ok",) + tuple(log.preger[-1]["out"])
            else:
                impl = ("raise", e)
    return ms, log, impl


# ----------------------------------------------------------------------------- correspondence
def correspondence(ctx):
    rng = ctx.rng
    nxmax = 64 if ctx.thorough else 32
    # (1) SD_PreGER directly, valid inputs
    for k in range(ctx.n(36, 400)):
        Y, fs, nxseg, method, pov = gen_setups(ctx, nxmax)
        log, impl = run_fn(Y, fs, nxseg, method, pov, kwstyle=k % 3)
        key = (method, nxseg, pov, Y[0]["ref"].shape[0], tuple(s["mov"].shape[0] for s in Y), "fn")
        compare(ctx, "SD_PreGER", Y, fs, nxseg, method, pov, log, impl, "fn", key)
        ctx.count(f"corr_fn_{method}")
        ctx.count("corr_pov_default" if pov == 0.5 else "corr_pov_other")
        if k == 0:
            ctx.sample({"n_setup": len(Y), "n_ref": int(Y[0]["ref"].shape[0]), "n_mov": [int(s["mov"].shape[0]) for s in Y],
                        "Ndat": int(Y[0]["ref"].shape[1]), "fs": fs, "nxseg": nxseg, "method": method, "pov": pov,
                        "sd_est_calls": len(log.calls)})
    # (1b) per-setup record lengths that DIFFER between the setups (depth round 2): values, trace, grid
    for k in range(ctx.n(10, 120)):
        Y, fs, nxseg, method, pov = gen_setups(ctx, nxmax, varlen=True)
        if len(Y) < 2:
            g = ctx.nprng()
            N2 = Y[0]["ref"].shape[1] + nxseg + rng.randint(1, nxseg - 1)
            Y.append({"ref": g.standard_normal((Y[0]["ref"].shape[0], N2)), "mov": g.standard_normal((rng.randint(1, 2), N2))})
        lens = tuple(int(s["ref"].shape[1]) for s in Y)
        log, impl = run_fn(Y, fs, nxseg, method, pov, kwstyle=k % 3)
        key = (method, nxseg, pov, Y[0]["ref"].shape[0], tuple(s["mov"].shape[0] for s in Y), "lens", lens)
        compare(ctx, "SD_PreGER[lengths differ]", Y, fs, nxseg, method, pov, log, impl, "fn", key)
        ctx.count("corr_lengths_differ" if len(set(lens)) > 1 else "corr_lengths_equal")
    # (2) through the algorithm classes: run parameters -> call trace
    classes = ["FDD_MS", "EFDD_MS", "pLSCF_MS"]
    for k in range(ctx.n(12, 120)):
        Y, fs, nxseg, method, pov = gen_setups(ctx, nxmax, nxmin=16)
        if len(Y) < 2:
            Y = Y + [{"ref": Y[0]["ref"] * 1.5, "mov": Y[0]["mov"][::-1] * 0.5}]
        cls = classes[k % 3]
        ms, log, impl = run_class(cls, Y, fs, nxseg, method, pov, rng)
        Yd = ms.data
        same = all(np.array_equal(a["ref"], b["ref"]) and np.array_equal(a["mov"], b["mov"]) for a, b in zip(Yd, Y))
        ctx.corr("pre_multisetup[layout]", same and len(Yd) == len(Y), None, None, None, None)
        key = (method, nxseg, pov, Y[0]["ref"].shape[0], tuple(s["mov"].shape[0] for s in Y), cls)
        # the user-level parameters must reach SD_PreGER unchanged
        pg = log.preger[-1] if log.preger else None
        okpg = pg is not None and pg["nxseg"] == nxseg and pg["method"] == method and pg["pov"] == pov and pg["fs"] == fs
        ctx.corr(f"{cls}.run[args]", okpg, {"nxseg": nxseg, "method": method, "pov": pov},
                 "run_params", None if pg is None else {k2: pg[k2] for k2 in ("nxseg", "method", "pov", "fs")}, key)
        compare(ctx, f"{cls}.run", Yd, fs, nxseg, method, pov, log, impl, "run", key)
        ctx.count(f"corr_{cls}")
    # (3) malformed stream
    for k in range(ctx.n(16, 160)):
        Y, fs, nxseg, method, pov = gen_setups(ctx, min(nxmax, 16))
        kind = ["empty", "method", "ragged", "nref_more", "nref_less", "dup_ref", "one_setup", "short", "zero_ref"][k % 9]
        g = ctx.nprng()
        if kind == "empty":
            Y = []
        elif kind == "method":
            method = rng.choice(["welch", "PER", "", "cor "])
        elif kind == "ragged":
            i = rng.randrange(len(Y))
            Y[i]["mov"] = Y[i]["mov"][:, : -rng.randint(1, 3)]
        elif kind in ("nref_more", "nref_less"):
            if len(Y) < 2:
                Y.append({"ref": g.standard_normal(Y[0]["ref"].shape), "mov": g.standard_normal(Y[0]["mov"].shape)})
            i = rng.randrange(1, len(Y))
            N = Y[i]["ref"].shape[1]
            nr = Y[0]["ref"].shape[0]
            nr2 = nr + rng.randint(1, 2) if kind == "nref_more" else max(nr - 1, 0)
            if nr2 == 0:
                nr2 = nr + 1
            Y[i]["ref"] = g.standard_normal((nr2, N))
        elif kind == "dup_ref":
            r = Y[0]["ref"][:1]
            for s in Y:
                s["ref"] = np.vstack([s["ref"][:1], s["ref"][:1]])
            del r
        elif kind == "zero_ref":
            # a dead reference channel in one setup: its reference block has a zero row at every line, exactly singular
            # in floating point too (np.linalg.inv -> LinAlgError, nothing else)
            i = rng.randrange(len(Y))
            Y[i]["ref"] = Y[i]["ref"].copy()
            Y[i]["ref"][rng.randrange(Y[i]["ref"].shape[0])] = 0.0
        elif kind == "one_setup":
            Y = Y[:1]
        elif kind == "short":
            for s in Y:
                s["ref"] = s["ref"][:, : 3 * nxseg]
                s["mov"] = s["mov"][:, : 3 * nxseg]
        log, impl = run_fn(Y, fs, nxseg, method, pov)
        key = (kind, method, nxseg, pov, len(Y))
        compare(ctx, f"SD_PreGER[malformed:{kind}]", Y, fs, nxseg, method, pov, log, impl, "fn", key)
        ctx.count(f"malformed_{kind}_{impl[0]}")
    # (4) the driver's exact inverse against numpy on well-conditioned complex matrices
    for _ in range(ctx.n(4, 40)):
        g = ctx.nprng()
        n = rng.randint(1, 3)
        G = g.standard_normal((n, n)) + 1j * g.standard_normal((n, n)) + 3 * np.eye(n)
        W = ctx.model("cx_inv", G=[[[R(z.real), R(z.imag)] for z in row] for row in G])
        Wm = np.array([[cfl(z) for z in row] for row in W])
        ctx.corr("np.linalg.inv[stand-in]", max_rel_err(np.linalg.inv(G), Wm) <= 1e-12, None, None, None, ("inv", n))
    # (5) the hand-over from the user's datasets and ref_ind (Model/MsGather.lean, op ms_gather, symbolic datasets): the
    #     object's data and both arguments of EVERY SD_est call of SD_PreGER, entry by entry, through the three classes
    from pyoma2.algorithms.fdd import EFDD_MS, FDD_MS
    from pyoma2.algorithms.plscf import pLSCF_MS
    from pyoma2.setup.multi import MultiSetup_PreGER

    for k in range(ctx.n(15, 150)):
        g = ctx.nprng()
        nxseg = rng.choice([8, 16])
        shapes, ref_ind = msgather.split_case(rng, "valid", nmin=4 * nxseg, nmax=6 * nxseg, same_nref=True)
        if len(shapes) < 2:
            shapes, ref_ind = shapes * 2, ref_ind * 2
        datasets = [g.standard_normal(tuple(sh)) for sh in shapes]
        fs = rng.choice([1.0, 100.0, 51.2])
        method = rng.choice(["per", "cor"])
        pov = rng.choice([0.0, 0.25, 0.5, 0.6])
        cls = classes[k % 3]
        ms = MultiSetup_PreGER(fs, [list(r) for r in ref_ind], [d.copy() for d in datasets])
        if cls == "FDD_MS":
            alg = FDD_MS(name="a", nxseg=nxseg, method_SD=method, pov=pov)
        elif cls == "EFDD_MS":
            alg = EFDD_MS(name="a", nxseg=nxseg, method_SD=method, pov=pov)
        else:
            alg = pLSCF_MS(name="a", ordmax=4, nxseg=nxseg, method_SD=method, pov=pov)
        ms.add_algorithms(alg)
        with SdLog() as log:
            try:
                ms.run_all()
            except Exception:  # noqa: BLE001  (a later stage may fail on random data; the calls were made)
                ctx.count("handover_tail_raised")
        m = ctx.model("ms_gather", shapes=shapes, ref_ind=ref_ind, fs=R(fs), nxseg=nxseg, pov=R(pov), method=method)
        ok = "raise" not in m and msgather.split_agrees(m, ("ok", ms.data), datasets) and len(log.calls) == len(m["sd_calls"]) == 2 * len(shapes)
        if ok:
            for c, mc in zip(log.calls, m["sd_calls"]):
                ok = ok and msgather.same(c["Yall"], msgather.realise(mc["Yall"], datasets))
                ok = ok and msgather.same(c["Yref"], msgather.realise(mc["Yref"], datasets))
                ok = ok and int(c["nxseg"]) == mc["nxseg"] and Fraction(c["pov"]) == Fraction(mc["pov"])
        ctx.corr("fdd.SD_PreGER[hand-over]", bool(ok), {"shapes": shapes, "ref_ind": ref_ind, "cls": cls, "method": method}, None, None,
                 ("handover", cls, method, len(shapes), len(ref_ind[0])))
        ctx.count(f"handover_{cls}")


# ----------------------------------------------------------------------------- oracle (from the statement)
def gen_recording(seed, quick, force=None):
    """one simultaneous recording and its partition into setups, reproducible from `seed`"""
    import random

    rng = random.Random(seed)
    g = np.random.default_rng(seed)
    n_set = rng.randint(2, 4)
    n_ref = rng.randint(1, 3)
    nmov = [1] * n_set
    while n_ref + sum(nmov) < 9 and rng.random() < 0.5:
        nmov[rng.randrange(n_set)] += 1
    nch = n_ref + sum(nmov)
    nxs = [64, 96, 128, 200, 256] if quick else [64, 100, 128, 256, 500, 512, 1024]
    nxseg = rng.choice(nxs)
    method = rng.choice(["per", "cor"])
    pov = rng.choice(POVS)
    if force:
        method, pov = force
    nseg = rng.randint(4, 10)
    N = nxseg * nseg + rng.randint(0, nxseg - 1)
    # coloured, correlated channels: mixed white sources through a few resonators
    from scipy import signal

    nsrc = nch + 2
    W = g.standard_normal((nsrc, N + 200))
    for s in range(nsrc):
        if rng.random() < 0.6:
            f0 = rng.uniform(0.05, 0.45)
            r = rng.uniform(0.7, 0.97)
            W[s] = signal.lfilter([1.0], [1.0, -2 * r * np.cos(2 * np.pi * f0), r * r], W[s])
    X = (g.standard_normal((nch, nsrc)) @ W)[:, 200:]
    X += 0.05 * np.abs(X).mean() * g.standard_normal(X.shape)
    chans = list(range(nch))
    rng.shuffle(chans)
    refs = chans[:n_ref]
    rest = chans[n_ref:]
    movs, p = [], 0
    for m in nmov:
        movs.append(rest[p : p + m])
        p += m
    fs = rng.choice([100.0, 128.0, 51.2, 1000.0, 1.0, 20.0])
    gains = [1.0] * n_set
    if rng.random() < 0.6:
        gains = [rng.choice([1.0, -1.0]) * 10.0 ** rng.uniform(-1.5, 1.5) for _ in range(n_set)]
        if rng.random() < 0.5:
            # all setups recorded in other units (micro-g, counts, ...): a common factor between 1e-8 and 1e8
            common = 10.0 ** rng.uniform(-8, 8)
            gains = [g_ * common for g_ in gains]
    datasets, ref_ind, movorder = build_datasets(X, refs, movs, gains, rng)
    return X, refs, movs, fs, nxseg, method, pov, gains, datasets, ref_ind, movorder


def build_datasets(X, refs, movs, gains, rng):
    """datasets (Ndat x channels) with the reference channels anywhere in each setup's channel list;
    returns also the order of the roving sensors in the merged matrix (setup order, then the order
    in which they occur in the setup's channel list)"""
    datasets, ref_ind, movorder = [], [], []
    for mv, gk in zip(movs, gains):
        cols = list(refs) + list(mv)
        rng.shuffle(cols)
        datasets.append(gk * X[cols, :].T.copy())
        ref_ind.append([cols.index(r) for r in refs])
        movorder.extend([c for c in cols if c not in refs])
    return datasets, ref_ind, movorder


def _povtag(pov):
    return "pov=0.5" if pov == 0.5 else "pov!=0.5"


def oracle_case(ctx, seed, quick, via, force=None):
    """merged matrix of one recording cut into setups == mean(g^2) * single-setup matrix"""
    fdd = _fdd()
    X, refs, movs, fs, nxseg, method, pov, gains, datasets, ref_ind, movorder = gen_recording(seed, quick, force)
    inp = {"case_seed": seed, "quick": quick, "force": force, "via": via, "fs": fs, "nxseg": nxseg, "method": method,
           "pov": pov, "refs": refs, "movs": movs, "gains": gains, "ref_ind": ref_ind, "Ndat": int(X.shape[1])}
    order = list(refs) + movorder
    f1, S1 = fdd.SD_est(X[order], X[refs], 1 / fs, nxseg, method, pov)
    n_ref = len(refs)
    cond = max(np.linalg.cond(S1[:n_ref, :, k]) for k in range(S1.shape[2]))
    if not cond < 1e6:
        ctx.skipped += 1
        return
    if via == "SD_PreGER":
        from pyoma2.functions.gen import pre_multisetup

        Y = pre_multisetup(datasets, ref_ind)
        if ctx.rng.random() < 0.5:
            Y = [{"mov": y["mov"], "ref": y["ref"]} for y in Y]
            ctx.count("setup_dict_mov_first")
        freq, Sy = fdd.SD_PreGER(Y, fs, nxseg=nxseg, pov=pov, method=method)
    else:
        from pyoma2.algorithms.fdd import EFDD_MS, FDD_MS
        from pyoma2.algorithms.plscf import pLSCF_MS
        from pyoma2.setup.multi import MultiSetup_PreGER

        ms = MultiSetup_PreGER(fs, ref_ind, datasets)
        if via == "FDD_MS":
            alg = FDD_MS(name="a", nxseg=nxseg, method_SD=method, pov=pov)
        elif via == "EFDD_MS":
            alg = EFDD_MS(name="a", nxseg=nxseg, method_SD=method, pov=pov)
        else:
            alg = pLSCF_MS(name="a", ordmax=4, nxseg=nxseg, method_SD=method, pov=pov)
        ms.add_algorithms(alg)
        ms.run_all()
        freq, Sy = alg.result.freq, alg.result.Sy
    ctx.oracle_cases += 1
    ctx.nontrivial.add(("oracle", via, method, nxseg, pov, n_ref, tuple(len(m) for m in movs)))
    ctx.count(f"oracle_{method}_{_povtag(pov)}")
    if Sy.shape != S1.shape:
        ctx.violation("shape", f"{via}: merged matrix has shape {Sy.shape}, single-setup matrix {S1.shape}", inp,
                      observed=list(Sy.shape), expected=list(S1.shape))
        return
    if not np.array_equal(np.asarray(freq), f1):
        ctx.violation("freq-grid", f"{via}: frequency grid differs from the single-setup grid", inp)
        return
    g2 = float(np.mean(np.square(gains)))
    err = max_rel_err(Sy, g2 * S1)
    if err < 1e-3:
        WORST["oracle"] = max(WORST["oracle"], err)
    if err > 1e-8:
        gt = "gains" if any(x != 1.0 for x in gains) else "unit-gains"
        ctx.violation(
            f"single-setup-mismatch:{method}:{_povtag(pov)}",
            f"{via}: merged matrix of one recording cut into {len(movs)} setups differs from the single-setup matrix "
            f"(method={method}, nxseg={nxseg}, pov={pov}, {gt}): relative error {err:.3g} of the largest entry",
            inp, observed={"max_rel_err": err, "cond_ref_block": cond}, expected="<= 1e-8",
        )


def oracle_gain(ctx, seed, quick):
    """general setups (independent recordings): scaling setup k by c leaves every roving block equal to
    T_i * mean and changes the mean reference block only by setup k's term"""
    import random

    fdd = _fdd()
    rng = random.Random(seed)
    g = np.random.default_rng(seed)
    n = rng.randint(2, 4)
    n_ref = rng.randint(1, 3)
    nxseg = rng.choice([64, 128] if quick else [64, 128, 256, 512])
    method = rng.choice(["per", "cor"])
    pov = rng.choice(POVS)
    N = nxseg * rng.randint(6, 12)
    # depth round 2: record lengths that differ between the setups (the statement's mean over setups is unweighted)
    Ns = [N] * n if rng.random() < 0.35 else [nxseg * rng.randint(5, 14) + rng.randint(0, nxseg - 1) for _ in range(n)]
    Y = []
    for N in Ns:
        nm = rng.randint(1, 3)
        ref = g.standard_normal((n_ref, N))
        mov = g.standard_normal((nm, n_ref)) @ ref + 0.5 * g.standard_normal((nm, N))
        Y.append({"ref": ref, "mov": mov})
    k = rng.randrange(n)
    c = rng.choice([1.0, -1.0]) * 10.0 ** rng.uniform(-1.5, 1.5)
    fs = 100.0
    Yc = [{"ref": (c if i == k else 1.0) * s["ref"], "mov": (c if i == k else 1.0) * s["mov"]} for i, s in enumerate(Y)]
    f0, S0 = fdd.SD_PreGER(Y, fs, nxseg=nxseg, pov=pov, method=method)
    fc, Sc = fdd.SD_PreGER(Yc, fs, nxseg=nxseg, pov=pov, method=method)
    _, Gk = fdd.SD_est(Y[k]["ref"], Y[k]["ref"], 1 / fs, nxseg, method, pov)
    blocks = [fdd.SD_est(s["ref"], s["ref"], 1 / fs, nxseg, method, pov)[1] for s in Y]
    cond = max(np.linalg.cond(B[:, :, q]) for B in blocks + [S0[:n_ref]] for q in range(B.shape[2]))
    if not cond < 1e5:
        ctx.skipped += 1
        return
    ctx.oracle_cases += 1
    ctx.count("oracle_gain")
    inp = {"gain_seed": seed, "quick": quick, "n_ref": n_ref, "n_mov": [int(s["mov"].shape[0]) for s in Y], "nxseg": nxseg, "method": method, "pov": pov,
           "k": k, "c": c, "Ndat": Ns}
    ctx.count("oracle_gain_lengths_differ" if len(set(Ns)) > 1 else "oracle_gain_lengths_equal")
    mean0, meanc = S0[:n_ref], Sc[:n_ref]
    # (a) mean block: only setup k's term changes; in general it is the mean of the setups' reference spectra
    e0 = max_rel_err(mean0, sum(blocks) / n)
    ea = max_rel_err(meanc - mean0, (c * c - 1.0) / n * Gk)
    scale = max(1.0, c * c)
    if e0 > 1e-9 or np.abs((meanc - mean0) - (c * c - 1.0) / n * Gk).max() > 1e-9 * scale * np.abs(Gk).max():
        ctx.violation(f"gain-mean:{method}", f"reference block is not the mean of the setups' reference spectra / "
                      f"scaling setup {k} by {c:.3g} changed more than its own term (errors {e0:.2e}, {ea:.2e})", inp)
        return
    # (b) roving blocks: S_rov = T * mean with the same T before and after scaling
    worst = 0.0
    for q in range(S0.shape[2]):
        T0 = S0[n_ref:, :, q] @ np.linalg.inv(mean0[:, :, q])
        pred = T0 @ meanc[:, :, q]
        worst = max(worst, np.abs(pred - Sc[n_ref:, :, q]).max() / max(np.abs(Sc[:, :, q]).max(), 1e-300))
    WORST["gain"] = max(WORST["gain"], worst if worst < 1e-3 else 0.0)
    if worst > 1e-7:
        ctx.violation(f"gain-roving:{method}", f"scaling setup {k} by {c:.3g} changed a roving block beyond its dependence "
                      f"on the mean reference block (rel {worst:.2e})", inp, observed=worst)


def oracle(ctx, scale):
    quick = not ctx.thorough
    vias = ["SD_PreGER", "FDD_MS", "SD_PreGER", "EFDD_MS", "SD_PreGER", "pLSCF_MS"]
    n = ctx.n(120, 2500) * scale
    for k in range(n):
        oracle_case(ctx, ctx.rng.getrandbits(48), quick, vias[k % len(vias)])
    # every (method, pov) pair at least once per run, directly
    for method in ("per", "cor"):
        for pov in POVS:
            oracle_case(ctx, ctx.rng.getrandbits(48), True, "SD_PreGER", [method, pov])
    for _ in range(ctx.n(40, 600) * scale):
        oracle_gain(ctx, ctx.rng.getrandbits(48), quick)
    ctx.notes.append("largest passing errors this run: correspondence %.2e (limit 1e-9), merged-vs-single %.2e (limit 1e-8), "
                     "gain relation %.2e (limit 1e-7)" % (WORST["corr"], WORST["oracle"], WORST["gain"]))


# ----------------------------------------------------------------------------- replay
class _MiniCtx:
    def __init__(self):
        self.oracle_cases = 0
        self.skipped = 0
        self.nontrivial = set()
        self.violations = []

    def count(self, *a, **k):
        pass

    def violation(self, sig, what, inp, observed=None, expected=None):
        self.violations.append((sig, what))
        print("VIOLATION reproduced:", sig, "-", what)


def replay(rec):
    v = rec["violation"]
    inp = v["input"]
    print("replaying", v["sig"], "-", v["what"])
    c = _MiniCtx()
    if "case_seed" in inp:
        oracle_case(c, inp["case_seed"], inp["quick"], inp["via"], inp.get("force"))
    else:
        oracle_gain(c, inp["gain_seed"], inp["quick"])
    if not c.violations:
        print("not reproduced (property holds on this input now)")
    return 1 if c.violations else 0
