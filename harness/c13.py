"""C13 — spectral matrix estimation (fdd.SD_est): grid, pairing, scaling and phase convention."""
import numpy as np

from common import R, Rmat, cfl, fl, max_rel_err, ModelError

from common import all_pre_build as pre_build  # noqa: E402,F401  (wiring + hc + fncalls translators)

LEAN_MODULES = ["PyomaVerif.Props.C13", "PyomaVerif.Props.C13Parseval", "PyomaVerif.Props.C13Phase", "PyomaVerif.Mutants.C13", "PyomaVerif.Props.WiringRun", "PyomaVerif.Props.WiringStore", "PyomaVerif.Props.WiringClass", "PyomaVerif.Props.WiringCalls",
                "PyomaVerif.Props.C13Dispatch", "PyomaVerif.Props.WiringFn"]
THEOREMS = [
    # call-site wiring of the class layer, regenerated from /repo on every run (translate_wiring.py)
    "PV.WiringRun.C13_run_spectral",
    "PV.WiringStore.C13_run_result_store",
    "PV.WiringClass.C13_run_inherited",
    "PV.WiringCalls.C13_fdd_run_calls",
    "PV.WiringCalls.C05_plscf_run_calls",
    "PV.C13.sd_pairing_per_entry",
    "PV.C13.sd_pairing_per",
    "PV.C13.sd_pairing_cor",
    "PV.C13.sd_grid_per",
    "PV.C13.sd_grid_cor",
    "PV.C13.sd_grid_nyquist",
    "PV.C13.sd_bilinear_per_add_left",
    "PV.C13.sd_bilinear_per_add_right",
    "PV.C13.sd_bilinear_per_smul",
    "PV.C13.sd_gain_sq_per",
    "PV.C13.sd_bilinear_cor_add_left",
    "PV.C13.sd_bilinear_cor_add_right",
    "PV.C13.sd_bilinear_cor_smul",
    "PV.C13.sd_gain_sq_cor",
    "PV.C13.sd_per_dyads",
    "PV.C13.sd_per_hermitian",
    "PV.C13.sd_per_psd",
    "PV.C13.dft_shift",
    "PV.C13.csd_gain_delay",
    "PV.C13.sd_sinusoid",
    "PV.C13.sd_sinusoid_ratio",
    "PV.C13.tw4_mul",
    "PV.C13.tw4_unit",
    "PV.C13.tw4_period",
    "PV.C13.ex_gain_delay",
    # Props/C13Parseval.lean: "equals Welch's estimate" and "integrates to the mean square" as theorems about the model
    "PV.C13.dft_orthogonality",
    "PV.C13.dft_parseval_complex",
    "PV.C13.dft_parseval",
    "PV.C13.orth_of_primitive",
    "PV.C13.parseval_hyps_roots_of_unity",
    "PV.C13.dft_parseval_roots_of_unity",
    "PV.C13.tw4_orth",
    "PV.C13.one_sided_lines",
    "PV.C13.one_sided_odd_last",
    "PV.C13.one_sided_fold",
    "PV.C13.two_sided_sum_real",
    "PV.C13.welch_parseval",
    "PV.C13.sd_per_parseval",
    "PV.C13.sd_per_auto_real",
    "PV.C13.sd_per_parseval_auto",
    "PV.C13.welch_parseval_flat",
    "PV.C13.sd_per_welch_form",
    "PV.C13.sd_cor_freq_sum",
    "PV.C13.sd_cor_parseval",
    "PV.C13.Mutants.opp_conj_violates_gain_delay",
    "PV.C13.Mutants.opp_conj_gives_conjugate_phase",
    "PV.C13.Mutants.swap_violates_pairing",
    "PV.C13.Mutants.short_grid_violates",
    # Props/C13Phase.lean: phase convention of the 'cor' chain, gain-and-delay under the Hann window, mean removal
    # immaterial on lines >= 2, twiddle side conditions for every n
    "PV.C13.csd_gain_delay_padded",
    "PV.C13.irfft_gain_delay",
    "PV.C13.corFromPxy_gain_delay",
    "PV.C13.sd_cor_gain_delay",
    "PV.C13.sd_cor_gain_delay_flat",
    "PV.C13.sd_per_swap_conj",
    "PV.C13.corPxy_swap_conj",
    "PV.C13.welchX_delay_window",
    "PV.C13.sd_per_gain_delay_kernel",
    "PV.C13.sd_per_gain_delay",
    "PV.C13.sd_per_welch_no_detrend",
    "PV.C13.sd_per_welch_no_detrend_roots_of_unity",
    "PV.C13.twR_primitive",
    "PV.C13.sd_sinusoid_roots_of_unity",
    "PV.C13.sd_sinusoid_ratio_roots_of_unity",
    "PV.C13.cor_hyps_roots_of_unity",
    "PV.C13.tw4_half12",
    "PV.C13.tw4_period12",
    "PV.C13.exC_delay",
    "PV.C13.exC_tail",
    "PV.C13.exY_delay",
    "PV.C13.exP_delay",
    "PV.C13.exP_adj",
    "PV.C13.Mutants.cor_conj_violates_gain_delay",
    "PV.C13.Mutants.cor_conj_violates_gain_delay_flat",
    "PV.C13.Mutants.cor_conj_gives_conjugate_phase",
    "PV.C13.Mutants.cor_swap_violates_gain_delay",
    "PV.C13.Mutants.cor_swap_violates_gain_delay_flat",
    "PV.C13.Mutants.cor_swap_gives_conjugate_phase",
    "PV.C13.Mutants.cor_rev_violates_gain_delay",
    "PV.C13.Mutants.cor_conj_opposite_phase",
    "PV.C13.Mutants.opp_conj_violates_hann_gain_delay",
    "PV.C13.Mutants.raw_differs_below_line_2",
    # Props/C13Dispatch.lean: SD_est as ONE function (Model/SpectralM.sdEstM, op sd_est, stream SD_est[dispatch])
    "PV.C13.sdEstM_other_raises",
    "PV.C13.sdEstM_unbound_iff",
    "PV.C13.sdEstM_per",
    "PV.C13.sdEstM_per_overlap_raises",
    "PV.C13.sdEstM_cor",
    "PV.C13.sdEstM_length_raises",
    "PV.C13.sdEstM_ok_inv",
    "PV.C13.sdEstM_grid",
    "PV.C13.sd_grid_last_odd",
    "PV.C13.sd_grid_last_odd_lt",
    "PV.C13.perNoverlap_int",
    "PV.C13.perNoverlap_lt",
    "PV.C13.sdEstM_per_pov",
    "PV.C13.expWin_real",
    # Props/WiringFn.lean: the scipy calls INSIDE SD_est (which value reaches which csd / window parameter under which
    # branch test), regenerated from /repo on every run (translate_fncalls.py)
    "PV.WiringFn.C13_sd_est_csd_cor",
    "PV.WiringFn.C13_sd_est_csd_per",
    "PV.WiringFn.C13_sd_est_expwin",
    "PV.WiringFn.C13_sd_est_calls",
    "PV.WiringFn.C13_sd_est_defaults",
]
RULE = (
    "correspondence: fdd.SD_est ('per' and 'cor') vs the Lean model Spectral.sdEstPer/sdEstCor executed with Float "
    "(twiddles cos/sin, Hann = 1/2 - 1/2 Re tw, exponential window exp) on random records (1..4 channels, 1..3 refs, "
    "nxseg 4..64 all parities, plus 128..512 quick / ..4096 thorough, overlaps incl. non-integer nxseg*pov, random dt), "
    "max |diff| <= 1e-9 * max |entry|, frequencies 1e-12; malformed stream (length mismatch, pov >= 1) must raise in both. "
    "SD_est[dispatch]: the ONE dispatching model Spectral.sdEstM (op sd_est) vs fdd.SD_est on valid calls, unknown method strings (with and "
    "without other faults), length mismatch, pov >= 1, nxseg 0..3, records shorter than a segment, pov < 0: same outcome CLASS (returns / "
    "ValueError / UnboundLocalError), values 1e-9, the noverlap handed to scipy.signal.csd (recorded call) = the model's int(nxseg*pov), "
    "the lag window returned by signal.windows.exponential (recorded) = the model's expWin 1e-13; SD_est[noverlap]: int(nxseg*pov) exact on "
    "300 / 4000 pairs incl. products that round up to an integer. "
    "oracle: the property's battery on the real code (independent numpy Welch lines >= 2, grid, pairing, bilinearity, "
    "g^2, Hermitian PSD, Parseval (mean square 5 %; exact window-weighted segment form of sd_per_parseval 1e-10), gain-and-delay (broadband 5 % / 30 %; "
    "EXACT 1e-9 on records satisfying the hypotheses of sd_cor_gain_delay -- lag-domain form, any exponential lag window -- and sd_per_gain_delay), grid-line sinusoids; class layer: result.freq/Sy of FDD and pLSCF through SingleSetup in "
    "multi-step sessions -- run twice, re-added after decimate_data, re-used on a second setup with another fs, two objects, amplitudes 1e-8..1e8 -- "
    "grid of the record handed over and Welch equivalence). distinct = distinct (kind, method, nxseg, pov, shapes)"
)
EXTRA_TRUSTED = [
    "scipy.signal.csd / numpy.fft (the Float model re-computes them from the definition; agreement is the correspondence)",
    "Lean Float (IEEE double) arithmetic and libm cos/sin/exp/log in the compiled driver",
]
ASSUMPTIONS = [
    "sdEstM declines ('unmodelled', counted) where scipy returns something the model does not describe: record shorter than nperseg (warning, "
    "shorter segment), negative overlap (pov < 0), Hann window of length 1 (nxseg = 1), empty arrays; dt = 0 (ZeroDivisionError for a Python "
    "float) is outside the model; the product nxseg*pov and int() are the platform's (SdEnv.trunc): over an ordered field perNoverlap_int "
    "gives floor(nxseg*pov), in double arithmetic the product is rounded first (10*0.7 -> 7; stream SD_est[noverlap])",
    "records have at least one full segment (nxseg <= Ndat): shorter records make scipy shrink nperseg with a warning and are outside the model",
    "the approximate statements of the property (Parseval 5 %, gain-and-delay 5 % / 30 % on non-periodic broadband data) are validated by search only; "
    "gain-and-delay oracle: the DC line is compared only for delays <= nxseg/512 (segment-mean removal leaves untapered weights there; "
    "bias 2d/n plus sampling error reaches 4-6 % at d = nxseg/64 for any feasible record length); all other lines at 5 %",
    "their exact counterparts (csd_gain_delay for segment-periodic pairs with a flat window, dyad decomposition, sd_sinusoid, sd_per_parseval / sd_per_welch_form) are the theorems",
    "exact gain-and-delay for the configurations SD_est uses (Props/C13Phase.lean): 'cor' needs even nxseg, the delay inside the zero padding of the first stage "
    "(half-segment tails at the half-segment mean) and holds against the auto estimate with the lag window ADVANCED by the delay (the exponential window is not "
    "shift invariant: the plain ratio is exact for a flat lag window only); 'per' (Hann) needs segment-periodic pairs and empty adjacent lines, otherwise the exact "
    "statement is the three-term-kernel form sd_per_gain_delay_kernel",
]

POVS8 = [0.0, 0.125, 0.25, 0.375, 0.5, 0.625, 0.75, 0.875]


def _sd():
    from pyoma2.functions import fdd

    return fdd.SD_est


# ----------------------------------------------------------------------------- correspondence
def _unpack(out):
    f = np.array([fl(v) for v in out["freq"]])
    S = np.array([[[cfl(z) for z in row] for row in a] for a in out["Sy"]], dtype=complex)
    return f, S


def _corr_case(ctx, sd, nxseg, pov, na, nr, Ndat, dt, ints=False, indep_ref=False):
    g = ctx.nprng()
    if ints:
        Y = g.integers(-5, 6, size=(na, Ndat)).astype(float)
    else:
        Y = g.standard_normal((na, Ndat)) * 10.0 ** g.uniform(-2, 2) + g.uniform(-1, 1)
    if indep_ref or nr > na:
        Yr = g.standard_normal((nr, Ndat))
    else:
        Yr = Y[sorted(ctx.rng.sample(range(na), nr)), :]
    inp = {"Yall": Rmat(Y), "Yref": Rmat(Yr), "dt": R(dt), "nxseg": nxseg}
    for method in ("per", "cor"):
        f, S = sd(Y, Yr, dt, nxseg, method, pov)
        if method == "per":
            out = ctx.model("sd_per", pov=R(pov), **inp)
        else:
            # small sizes: entries evaluated through sdEstCor itself; larger: same composition with materialised arrays
            out = ctx.model("sd_cor", direct=bool(nxseg <= 16 and Ndat <= 64), **inp)
            ctx.count("corr_cor_direct" if (nxseg <= 16 and Ndat <= 64) else "corr_cor_staged")
        fm, Sm = _unpack(out)
        e1 = max_rel_err(Sm, S)
        e2 = max_rel_err(fm, f)
        ok = e1 <= 1e-9 and e2 <= 1e-12
        small = {"nxseg": nxseg, "pov": pov, "dt": dt, "shape": [na, nr, Ndat], "method": method}
        ctx.corr(
            f"SD_est[{method}]", ok, small | ({"Yall": Y.tolist(), "Yref": Yr.tolist()} if Ndat * na <= 400 else {}),
            {"err_S": e1, "err_f": e2}, {"S_shape": list(S.shape)}, (method, nxseg, pov, na, nr, Ndat),
        )
        ctx.count(f"corr_{method}")
        ctx.dist["corr_max_err"] = max(ctx.dist.get("corr_max_err", 0.0), e1)
    ctx.count("corr_nxseg_odd" if nxseg % 2 else "corr_nxseg_even")


# --- default values as regenerated obligations (Generated/Defaults.lean <- harness/translate_defaults.py; stream defaults[...])
import defaults_stream  # noqa: E402
LEAN_MODULES += ["PyomaVerif.Props.WiringDefaultsC13"]
THEOREMS += ["PV.WiringDefaults.C13_defaults"]


def correspondence(ctx):
    defaults_stream.correspondence(ctx, props=('C13',))
    sd = _sd()
    rng = ctx.rng
    for k in range(ctx.n(40, 600)):
        nxseg = rng.randint(4, 64)
        r = rng.random()
        if r < 0.5:
            pov = rng.choice(POVS8)
        elif r < 0.8:
            pov = rng.choice([0.5, 0.3, 0.66, 0.1, 0.9, 1 / 3, 0.7])
        else:
            pov = round(rng.uniform(0, 0.95), 3)
        na = rng.randint(1, 4)
        nr = rng.randint(1, 3)
        Ndat = rng.randint(nxseg, 6 * nxseg)
        if rng.random() < 0.7:
            Ndat = max(Ndat, 2 * nxseg)
        dt = rng.choice([0.01, 1 / 256, 0.005, 1.0, round(rng.uniform(1e-3, 0.5), 4)])
        _corr_case(ctx, sd, nxseg, pov, na, nr, Ndat, dt, ints=rng.random() < 0.25, indep_ref=rng.random() < 0.3)
        if k == 0:
            ctx.sample({"nxseg": nxseg, "pov": pov, "na": na, "nr": nr, "Ndat": Ndat, "dt": dt})
    big = [128, 256, 512] if not ctx.thorough else [128, 256, 512, 1024, 1000, 2048, 4096, 513]
    for nxseg in big:
        pov = rng.choice([0.5, 0.25, 0.75, 0.0])
        Ndat = int(nxseg * rng.uniform(2.0, 3.5))
        _corr_case(ctx, sd, nxseg, pov, 2, 1 if nxseg > 600 else 2, Ndat, 0.01)
    # malformed stream: both must raise
    for _ in range(ctx.n(6, 40)):
        nxseg = rng.randint(4, 32)
        g = ctx.nprng()
        Ndat = rng.randint(2 * nxseg, 4 * nxseg)
        kind = rng.choice(["length", "pov"])
        Y = g.standard_normal((2, Ndat))
        Yr = g.standard_normal((1, Ndat - 3 if kind == "length" else Ndat))
        pov = 0.5 if kind == "length" else rng.choice([1.0, 1.25, 2.0])
        impl_raises = False
        try:
            sd(Y, Yr, 0.01, nxseg, "per", pov)
        except ValueError:
            impl_raises = True
        model_raises = False
        try:
            ctx.model("sd_per", Yall=Rmat(Y), Yref=Rmat(Yr), dt=R(0.01), nxseg=nxseg, pov=R(pov))
        except ModelError:
            model_raises = True
        ctx.corr("SD_est[per,malformed]", impl_raises and model_raises, {"kind": kind, "nxseg": nxseg, "pov": pov},
                 model_raises, impl_raises, ("malformed", kind))
        ctx.count("corr_malformed")
    _corr_dispatch(ctx, sd)


# ----------------------------------------------------------------------------- SD_est as ONE function (Model/SpectralM.sdEstM)
BAD_METHODS = ["Per", "PER", "welch", "", "corr", "cor ", "periodogram", "co", "p"]


def _real_sd_recorded(sd, Y, Yr, dt, nxseg, method, pov):
    """run the real SD_est; -> (outcome, payload, rec): outcome 'ok' / exception class name; rec = the `noverlap` the
    function handed to scipy.signal.csd and the lag window it got from signal.windows.exponential (recorded calls)"""
    import warnings

    from pyoma2.functions import fdd

    rec = {}
    csd0, exp0 = fdd.signal.csd, fdd.signal.windows.exponential

    def csd(*a, **k):
        rec["csd_kw"] = {q: v for q, v in k.items()}
        return csd0(*a, **k)

    def expo(*a, **k):
        w = exp0(*a, **k)
        rec["expwin"] = np.array(w, dtype=float)
        return w

    fdd.signal.csd, fdd.signal.windows.exponential = csd, expo
    try:
        with warnings.catch_warnings(record=True) as wl:
            warnings.simplefilter("always")
            f, S = sd(Y, Yr, dt, nxseg, method, pov)
        rec["warned"] = [w.category.__name__ for w in wl]
        return "ok", (np.asarray(f), np.asarray(S)), rec
    except Exception as e:  # noqa: BLE001
        return type(e).__name__, str(e), rec
    finally:
        fdd.signal.csd, fdd.signal.windows.exponential = csd0, exp0


def _dispatch_case(ctx, sd, kind, method, nxseg, pov, na, nr, Ndat, Ndat_all, dt):
    g = ctx.nprng()
    Y = g.standard_normal((na, Ndat_all)) * 10.0 ** g.uniform(-1, 1)
    Yr = g.standard_normal((nr, Ndat))
    if Ndat_all == Ndat and nr <= na and ctx.rng.random() < 0.5:
        Yr = Y[:nr, :].copy()
    small = {"kind": kind, "method": method, "nxseg": nxseg, "pov": pov, "dt": dt, "shape": [na, Ndat_all, nr, Ndat]}
    out = ctx.model("sd_est", Yall=Rmat(Y), Yref=Rmat(Yr), dt=R(dt), nxseg=nxseg, method=method, pov=R(pov))
    impl, pay, rec = _real_sd_recorded(sd, Y, Yr, dt, nxseg, method, pov)
    mo = out.get("raise", "ok")
    fn = "SD_est[dispatch]"
    key = (kind, method if method in ("per", "cor") else "other", mo)
    if mo == "unmodelled":
        # the model declines (scipy warns and shortens the segment, negative overlap, Hann of length 1, empty arrays): the
        # real call must not end in the two exceptions the model does describe for other reasons
        ctx.count("dispatch_unmodelled")
        ctx.corr(fn, impl in ("ok", "ValueError"), small, out, impl, key)
        return
    ok = mo == impl
    det = {}
    if ok and mo == "ok":
        f, S = pay
        fm, Sm = _unpack(out)
        det = {"err_S": max_rel_err(Sm, S), "err_f": max_rel_err(fm, f), "warned": rec.get("warned")}
        ok = det["err_S"] <= 1e-9 and det["err_f"] <= 1e-12 and not rec.get("warned")
        if method == "per":
            # the overlap scipy was handed, as scipy converts it, is the model's `perNoverlap`
            nov_real = int(rec["csd_kw"]["noverlap"])
            det["noverlap"] = [out["noverlap"], nov_real]
            ok = ok and out["noverlap"] == nov_real
            ctx.count("dispatch_nov_nonint" if float(nxseg * pov) != nov_real else "dispatch_nov_int")
        else:
            n2 = 2 * (nxseg // 2)
            wm = np.array([fl(v) for v in ctx.model("sd_expwin", M=n2)])
            det["err_win"] = max_rel_err(wm, rec["expwin"])
            ok = ok and det["err_win"] <= 1e-13
    ctx.corr(fn, ok, small | ({"Yall": Y.tolist(), "Yref": Yr.tolist()} if Y.size <= 200 else {}), out if mo != "ok" else det, impl, key)
    ctx.count(f"dispatch_{mo}")


def _corr_dispatch(ctx, sd):
    """`sdEstM`: the method string selects the branch, everything else raises UnboundLocalError BEFORE any argument is
    looked at; the argument checks of reshape / csd; `noverlap = int(nxseg * pov)` in double arithmetic; the lag window"""
    rng = ctx.rng
    for k in range(ctx.n(60, 500)):
        r = rng.random()
        nxseg = rng.randint(4, 24)
        na, nr = rng.randint(1, 3), rng.randint(1, 2)
        Ndat = rng.randint(nxseg, 4 * nxseg)
        Ndat_all = Ndat
        pov = rng.choice(POVS8 + [0.3, 0.66, 0.1, 0.9, 1 / 3, 0.7, 0.35, 0.55, 0.6, 0.15, round(rng.uniform(0, 0.95), 3)])
        method = rng.choice(["per", "cor"])
        dt = rng.choice([0.01, 1 / 256, 1.0, round(rng.uniform(1e-3, 0.5), 4)])
        if r < 0.3:
            kind = "valid"
        elif r < 0.5:
            kind = "unknown-method"
            method = rng.choice(BAD_METHODS)
            if rng.random() < 0.4:  # … whatever else is wrong
                Ndat_all = Ndat + rng.randint(1, 3)
            if rng.random() < 0.3:
                pov = 1.5
        elif r < 0.62:
            kind = "length"
            Ndat_all = Ndat + rng.choice([-2, -1, 1, 3])
        elif r < 0.74:
            kind = "pov>=1"
            pov = rng.choice([1.0, 1.25, 2.0, 1.0 + 2.0 ** -30])
        elif r < 0.86:
            kind = "tiny-nxseg"
            nxseg = rng.choice([0, 1, 2, 3])
            Ndat = Ndat_all = rng.randint(4, 12)
        elif r < 0.93:
            kind = "short-record"  # 'cor' needs nxseg//2 samples only, 'per' a full segment
            Ndat = Ndat_all = rng.randint(max(1, nxseg // 2 - 1), nxseg - 1)
        else:
            kind = "pov<0"
            pov = -rng.choice([0.25, 0.5, 0.01])
        _dispatch_case(ctx, sd, kind, method, nxseg, pov, na, nr, Ndat, Ndat_all, dt)
    # int(nxseg * pov): the product is rounded to a double BEFORE the truncation (10 * 0.7 = 7.0 although 0.7 < 7/10)
    bad = 0
    cases = [(10, 0.7), (10, 0.1), (100, 0.29), (100, 0.57), (100, 0.58), (1000, 0.009), (3, 1 / 3), (49, 1 / 49), (1024, 0.5)]
    for _ in range(ctx.n(300, 4000)):
        cases.append((rng.randint(1, 4096), rng.choice([round(rng.uniform(0, 0.999), rng.randint(1, 4)), rng.uniform(0, 0.999)])))
    for nxseg, pov in cases:
        m = ctx.model("sd_noverlap", nxseg=nxseg, pov=R(pov))
        real = int(nxseg * pov)
        from fractions import Fraction

        if real != int(nxseg * Fraction(pov)):
            ctx.count("noverlap_product_rounds_up")
        bad += m != real
    ctx.corr("SD_est[noverlap]", bad == 0, {"cases": len(cases)}, bad, 0, ("noverlap", len(cases) > 0))


# ----------------------------------------------------------------------------- oracle helpers
def _nov(nxseg, pov):
    return int(nxseg * pov)


def _pick_pov(rng, nxseg):
    c = [p for p in POVS8 if float(nxseg * p).is_integer()]
    return rng.choice(c)


def indep_welch(Y, Yr, fs, n, nov):
    """Welch's averaged, Hann-windowed, one-sided cross spectral density from the definition
    (no mean removal: compare lines >= 2 only)."""
    N = Y.shape[1]
    step = n - nov
    nseg = (N - nov) // step
    w = 0.5 - 0.5 * np.cos(2 * np.pi * np.arange(n) / n)
    S = np.zeros((Y.shape[0], Yr.shape[0], n // 2 + 1), complex)
    for s in range(nseg):
        X = np.fft.rfft(Y[:, s * step : s * step + n] * w, axis=1)
        Z = np.fft.rfft(Yr[:, s * step : s * step + n] * w, axis=1)
        S += np.conj(X)[:, None, :] * Z[None, :, :]
    S /= nseg * fs * np.sum(w * w)
    if n % 2 == 0:
        S[..., 1:-1] *= 2
    else:
        S[..., 1:] *= 2
    return S


def _data(p):
    g = np.random.default_rng(p["npseed"])
    Y = g.standard_normal((p["na"], p["Ndat"])) * p.get("amp", 1.0)
    if p.get("ref_rows") is not None:
        Yr = Y[p["ref_rows"], :]
    else:
        Yr = g.standard_normal((p["nr"], p["Ndat"])) * p.get("amp", 1.0)
    return g, Y, Yr


def check_basic(p, stats=None):
    """Welch equivalence, grid, pairing, bilinearity, g^2 on one random record."""
    sd = _sd()
    out = []
    g, Y, Yr = _data(p)
    n, pov, dt = p["nxseg"], p["pov"], p["dt"]
    fs = 1 / dt
    na, nr = Y.shape[0], Yr.shape[0]

    def st(k, v):
        if stats is not None:
            stats[k] = max(stats.get(k, 0.0), float(v))

    res = {}
    for method in ("per", "cor"):
        f, S = sd(Y, Yr, dt, n, method, pov)
        res[method] = S
        nf = n // 2 + 1
        # grid
        if S.shape != (na, nr, nf) or f.shape != (nf,):
            out.append((f"grid-shape-{method}", f"{method}: shapes freq {f.shape}, Sy {S.shape}; expected {nf} lines, {na}x{nr}", None, None))
            continue
        ef = np.abs(f - np.arange(nf) * fs / n).max() / (fs / 2)
        st("grid", ef)
        if ef > 1e-12:
            out.append((f"grid-freq-{method}", f"{method}: line k is not at k*fs/nxseg (rel {ef:.2e})", f.tolist()[:5], None))
        if n % 2 == 0 and abs(f[-1] - fs / 2) > 1e-12 * fs:
            out.append((f"grid-nyquist-{method}", f"{method}: last line {f[-1]} is not fs/2 = {fs/2}", None, None))
        sc = np.abs(S).max()
        # pairing: entry (i,j) from (row i, row j) only
        i = int(g.integers(0, na))
        j = int(g.integers(0, nr))
        _, S1 = sd(Y[i : i + 1], Yr[j : j + 1], dt, n, method, pov)
        e = np.abs(S1[0, 0] - S[i, j]).max() / sc
        st("pair1", e)
        if e > 1e-12:
            out.append((f"pairing-{method}", f"{method}: entry ({i},{j}) differs from the estimate of (row {i}, row {j}) alone (rel {e:.2e})", None, None))
        if na > 1 or nr > 1:
            Y2 = Y.copy()
            Yr2 = Yr.copy()
            for a in range(na):
                if a != i:
                    Y2[a] = g.standard_normal(Y.shape[1]) * 3
            for b in range(nr):
                if b != j:
                    Yr2[b] = g.standard_normal(Y.shape[1]) * 3
            _, S2 = sd(Y2, Yr2, dt, n, method, pov)
            e = np.abs(S2[i, j] - S[i, j]).max() / sc
            st("pair2", e)
            if e > 1e-12:
                out.append((f"pairing-{method}", f"{method}: entry ({i},{j}) changed when other rows changed (rel {e:.2e})", None, None))
        # bilinearity and g^2
        Yb = g.standard_normal(Y.shape)
        Yrb = g.standard_normal(Yr.shape)
        al, be = g.standard_normal(2)
        fS = lambda A, B: sd(A, B, dt, n, method, pov)[1]  # noqa: E731
        lhs = fS(Y + al * Yb, Yr + be * Yrb)
        rhs = S + al * fS(Yb, Yr) + be * fS(Y, Yrb) + al * be * fS(Yb, Yrb)
        e = max_rel_err(lhs, rhs)
        st("bilin", e)
        if e > 1e-10:
            out.append((f"bilinear-{method}", f"{method}: not bilinear in (data, reference data) (rel {e:.2e})", None, None))
        gain = float(p["gain"])
        e = max_rel_err(fS(gain * Y, gain * Yr), gain * gain * S)
        st("gain2", e)
        if e > 1e-10:
            out.append((f"gain-square-{method}", f"{method}: common gain {gain} does not scale the matrix by its square (rel {e:.2e})", None, None))
    # Welch equivalence, lines >= 2
    if "per" in res and res["per"].shape == (na, nr, n // 2 + 1):
        E = indep_welch(Y, Yr, fs, n, _nov(n, pov))
        e = np.abs(res["per"][..., 2:] - E[..., 2:]).max() / np.abs(E).max()
        st("welch", e)
        if e > 1e-9:
            out.append(("welch-per", f"'per' differs from Welch's averaged Hann-windowed one-sided density on lines >= 2 (rel {e:.2e})", None, None))
    return out


def check_psd_parseval(p, stats=None):
    sd = _sd()
    out = []
    g = np.random.default_rng(p["npseed"])
    n, pov, dt, na, N = p["nxseg"], p["pov"], p["dt"], p["na"], p["Ndat"]
    Y = g.standard_normal((na, N))
    if p.get("mix"):
        Y = g.standard_normal((na, na)) @ Y  # correlated channels
    if p.get("colour"):
        Y = Y + 0.8 * np.roll(Y, 1, axis=1) + 0.3 * np.roll(Y, 2, axis=1)
    f, S = sd(Y, Y, dt, n, "per", pov)
    herm = 0.0
    mine = 0.0
    for k in range(S.shape[2]):
        M = S[:, :, k]
        tr = float(np.trace(M).real)
        herm = max(herm, np.abs(M - M.conj().T).max() / max(tr, 1e-300))
        ev = np.linalg.eigvalsh((M + M.conj().T) / 2)
        mine = min(mine, ev[0] / max(tr, 1e-300))
    if stats is not None:
        stats["herm"] = max(stats.get("herm", 0.0), herm)
        stats["mineig"] = max(stats.get("mineig", 0.0), -mine)
    if herm > 1e-12:
        out.append(("per-not-hermitian", f"'per' with identical arguments: a line is not Hermitian (rel {herm:.2e})", None, None))
    if mine < -1e-12:
        out.append(("per-not-psd", f"'per' with identical arguments: min eigenvalue {mine:.2e} * trace", None, None))
    if p.get("parseval"):
        df = f[1] - f[0]
        for i in range(na):
            integ = float(np.sum(S[i, i, :].real) * df)
            ms = float(np.mean((Y[i] - Y[i].mean()) ** 2))
            e = abs(integ - ms) / ms
            if stats is not None:
                stats["parseval"] = max(stats.get("parseval", 0.0), e)
            if e > 0.05:
                out.append(("parseval", f"'per': integral over frequency {integ:.6g} vs mean square {ms:.6g} (rel {e:.3f})", integ, ms))
    # the EXACT form of the same clause (what "Hann-windowed Welch estimate" + Parseval give; Lean: sd_per_parseval):
    # df * sum_k Re S_ij[k] = mean over segments of sum_t (w x~_i)(w x~_j) / sum_t w^2, x~ = segment minus its mean
    df = f[1] - f[0]
    nov = int(n * pov)
    step = n - nov
    nseg = (N - nov) // step
    w = 0.5 - 0.5 * np.cos(2 * np.pi * np.arange(n) / n)
    seg = np.stack([Y[:, s * step : s * step + n] for s in range(nseg)])  # nseg x na x n
    seg = (seg - seg.mean(axis=2, keepdims=True)) * w
    want = np.einsum("sit,sjt->ij", seg, seg) / nseg / float(np.sum(w * w))
    got = np.sum(S.real, axis=2) * df
    scale = float(np.sqrt(np.outer(np.diag(want), np.diag(want))).max())
    ex = float(np.abs(got - want).max() / max(scale, 1e-300))
    if stats is not None:
        stats["parseval_exact"] = max(stats.get("parseval_exact", 0.0), ex)
    if ex > 1e-10:
        out.append(("parseval-window-weighted", f"'per': df*sum_k Re S differs from the window-weighted mean product of the detrended segments (rel {ex:.2e})", None, None))
    return out


def check_gain_delay(p, stats=None):
    sd = _sd()
    out = []
    g = np.random.default_rng(p["npseed"])
    n, pov, dt, N, d, gain = p["nxseg"], p["pov"], p["dt"], p["Ndat"], p["delay"], p["gain"]
    x = g.standard_normal(N + d)
    y1 = x[d:]  # x(t)
    y2 = gain * x[: N]  # gain * x(t - d)
    Y = np.vstack([y1, y2])
    for method in ("per", "cor"):
        f, S = sd(Y, Y, dt, n, method, pov)
        ratio = S[0, 1, :] / S[0, 0, :]
        want = gain * np.exp(-2j * np.pi * f * d * dt)
        opp = gain * np.exp(+2j * np.pi * f * d * dt)
        err = np.abs(ratio - want) / abs(gain)
        erro = np.abs(ratio - opp) / abs(gain)
        if method == "per":
            # Line 0 is guarded unless the delay is <= nxseg/512: after segment-mean removal the DC line of a
            # Hann-windowed segment carries the untapered weights cos(2 pi t/n), whose edge mismatch biases the ratio by
            # 2d/n (3.1 % at the largest delay) with a sampling error of sqrt(4d/n)/sqrt(nseg) on top -- measured 4-6 %
            # at d = nxseg/64 on the unchanged tree, irrespective of the conjugation convention.
            lo = 0 if d * 512 <= n else 1
            if stats is not None and lo == 1:
                stats["gd_dc_guarded"] = 1.0
            e = float(err[lo:].max())
            tol = 0.05
        else:
            e = float(np.median(err))
            tol = 0.30
        if stats is not None:
            stats[f"gd_{method}"] = max(stats.get(f"gd_{method}", 0.0), e / tol)
        if e > tol:
            out.append((f"gain-delay-{method}", f"{method}: cross/auto does not reproduce gain {gain:.4g} and delay {d} samples in the conj(X)Y convention "
                        f"({'max' if method == 'per' else 'median'} rel err {e:.3f})", e, tol))
        if d >= 1:
            eo = float(erro.max())
            if stats is not None:
                stats[f"gd_opp_{method}"] = max(stats.get(f"gd_opp_{method}", 0.0), 1.0 / eo)
            if eo <= 1.0:
                out.append((f"gain-delay-opposite-{method}", f"{method}: the opposite conjugation is not rejected (max rel err {eo:.3f} <= 100 %)", eo, None))
    return out


def check_sinusoid(p, stats=None):
    sd = _sd()
    out = []
    g = np.random.default_rng(p["npseed"])
    n, pov, dt, N, na, k0 = p["nxseg"], p["pov"], p["dt"], p["Ndat"], p["na"], p["k0"]
    A = 10.0 ** g.uniform(-1.5, 1.5, size=na)
    ph = g.uniform(-np.pi, np.pi, size=na)
    t = np.arange(N)
    Y = A[:, None] * np.cos(2 * np.pi * k0 * t[None, :] / n + ph[:, None])
    a = A * np.exp(1j * ph)
    f, S = sd(Y, Y, dt, n, "per", pov)
    worst = 0.0
    for i in range(na):
        for j in range(na):
            r = S[i, j, k0] / S[i, i, k0]
            worst = max(worst, abs(r - a[j] / a[i]) / abs(a[j] / a[i]))
    if stats is not None:
        stats["sinus"] = max(stats.get("sinus", 0.0), worst)
    if worst > 1e-9:
        out.append(("sinusoid-ratio", f"'per': grid-line sinusoids at line {k0}: amplitude ratios not reproduced (rel {worst:.2e})", worst, 1e-9))
    return out


def check_gain_delay_exact(p, stats=None):
    """The EXACT gain-and-delay statements (Lean: sd_cor_gain_delay, sd_per_gain_delay) on records built to satisfy their
    hypotheses, run on the real code.
    'cor' (even nxseg): every half-segment of x ends in d samples at the half-segment mean, y = gain * (circular delay by d
    of each half-segment).  Then S[x,y] = gain tw(k d) S_d[x,x], S_d computed with the lag window advanced by d; in the lag
    domain and without knowing the window beyond its being exponential (w[t]/w[t-d] constant for t >= d):
    irfft(S[x,y])[t] = c * irfft(S[x,x])[t-d] for d <= t < nxseg with ONE constant c, c/gain > 0.  conj(Pxy), swapped csd
    arguments or a reversed Rxy mirror the lag axis and break this at O(1).
    'per': x = offset + sinusoids on the EVEN grid lines (nxseg-periodic, so a global delay is circular in every segment and
    the lines adjacent to an even line are empty), y = gain * x(t - d): at every even line S[x,y]/S[x,x] = gain exp(-2 pi i k d/n)
    for ANY delay 0 <= d < nxseg."""
    sd = _sd()
    out = []
    g = np.random.default_rng(p["npseed"])
    n, pov, dt, d, gain, nseg, dc = p["nxseg"], p["pov"], p["dt"], p["delay"], p["gain"], p["nseg"], p["delay_cor"]
    h = n // 2
    head = g.standard_normal((2 * nseg, h - dc)) + g.uniform(-2, 2, size=(2 * nseg, 1))
    seg = np.concatenate([head, np.repeat(head.mean(axis=1, keepdims=True), dc, axis=1)], axis=1)
    ex = g.standard_normal((2, min(p["extra"], h - 1)))  # an incomplete trailing half-segment is ignored by the estimator
    Y = np.vstack([np.concatenate([seg.reshape(-1), ex[0]]), np.concatenate([gain * np.roll(seg, dc, axis=1).reshape(-1), ex[1]])])
    _, S = sd(Y, Y, dt, n, "cor", pov)
    if S.shape == (2, 2, h + 1):
        Rxx = np.fft.irfft(S[0, 0])
        Rxy = np.fft.irfft(S[0, 1])
        a, b = Rxx[: n - dc], Rxy[dc:]
        c = float(a @ b / (a @ a))
        res = float(np.abs(b - c * a).max() / np.abs(Rxy).max())
        if stats is not None:
            stats["gdx_cor"] = max(stats.get("gdx_cor", 0.0), res / 1e-9)
        if res > 1e-9 or not c / gain > 0:
            out.append(("gain-delay-exact-cor", f"cor: lag-domain cross estimate is not one positive multiple of gain * (auto estimate delayed by {dc} lags) "
                        f"on a half-segment-wise exact gain-and-delay pair (residual {res:.2e}, c/gain {c / gain:.3g}): conj(X)Y convention broken", res, 1e-9))
    ks = np.arange(2, n // 2 - 1, 2)
    N = p["Ndat_per"]
    t = np.arange(N + d)
    amp = 10.0 ** g.uniform(-0.5, 0.5, size=len(ks))
    ph = g.uniform(-np.pi, np.pi, size=len(ks))
    spec = np.zeros(h + 1, complex)
    spec[ks] = amp * np.exp(1j * ph) * (n / 2)  # one period of sum_k amp_k cos(2 pi k t/n + ph_k), even lines only
    xx = np.fft.irfft(spec, n)[t % n] + g.uniform(-3, 3)
    Yp = np.vstack([xx[d:], gain * xx[:N]])
    _, S = sd(Yp, Yp, dt, n, "per", pov)
    if S.shape == (2, 2, h + 1) and len(ks):
        err = float(np.abs(S[0, 1, ks] / S[0, 0, ks] - gain * np.exp(-2j * np.pi * ks * d / n)).max() / abs(gain))
        if stats is not None:
            stats["gdx_per"] = max(stats.get("gdx_per", 0.0), err / 1e-9)
        if err > 1e-9:
            out.append(("gain-delay-exact-per", f"per: segment-periodic pair with empty adjacent lines, delay {d}: cross/auto differs from gain*exp(-2 pi i k d/n) "
                        f"at an even line (rel {err:.2e})", err, 1e-9))
    return out


def check_classlayer(p, stats=None):
    """The property observed where users see it (result.freq / result.Sy of FDD and pLSCF run through SingleSetup):
    one line every fs/nxseg up to Nyquist, fs being the sampling rate of the record the algorithm was handed, and
    'per' equal to Welch's estimate of that record -- for every run of a session: fresh objects, an object run twice,
    an object re-added after decimate_data, an object re-used on a second setup with another fs, two objects side by
    side; non-default run parameters; amplitudes far from 1; the caller's array left untouched."""
    from pyoma2.algorithms import FDD, pLSCF
    from pyoma2.setup import SingleSetup

    out = []
    g = np.random.default_rng(p["npseed"])
    nch = p["nch"]

    def st(k, v):
        if stats is not None:
            stats[k] = max(stats.get(k, 0.0), float(v))

    def mk(spec):
        kw = dict(name=spec["name"], nxseg=spec["nxseg"], method_SD=spec["method"], pov=spec["pov"])
        if spec["cls"] == "pLSCF":
            return pLSCF(ordmax=spec["ordmax"], **kw)
        return FDD(**kw)

    algs = {a["name"]: (a, mk(a)) for a in p["algs"]}
    handed = {}  # name -> (copy of the record handed over, its fs)
    setups = []
    originals = []
    ss = None

    def verify(tag, name):
        spec, alg = algs[name]
        rec, fs = handed[name]
        n = spec["nxseg"]
        nf = n // 2 + 1
        res = alg.result
        freq, Sy = np.asarray(res.freq), np.asarray(res.Sy)
        where = f"{spec['cls']}[{spec['method']}] {tag}"
        if freq.shape != (nf,) or Sy.shape != (nch, nch, nf):
            out.append((f"class-grid-shape-{spec['method']}", f"{where}: shapes freq {freq.shape}, Sy {Sy.shape}; expected {nf} lines", None, None))
            return
        ef = float(np.abs(freq - np.arange(nf) * fs / n).max() / (fs / 2))
        st("class_grid", ef)
        if ef > 1e-12:
            out.append((f"class-grid-freq-{spec['method']}",
                        f"{where}: result.freq has lines every {freq[1] - freq[0]:.6g} up to {freq[-1]:.6g}; the record handed over has fs = {fs:.6g}, "
                        f"nxseg = {n}: expected lines every {fs / n:.6g} up to {fs / 2 if n % 2 == 0 else (nf - 1) * fs / n:.6g}",
                        [float(freq[1] - freq[0]), float(freq[-1])], [fs / n, (nf - 1) * fs / n]))
        if spec["method"] == "per":
            E = indep_welch(rec.T, rec.T, fs, n, _nov(n, spec["pov"]))
            e = float(np.abs(Sy[..., 2:] - E[..., 2:]).max() / np.abs(E).max())
            st("class_welch", e)
            if e > 1e-9:
                out.append(("class-welch-per", f"{where}: result.Sy differs from Welch's one-sided density of the record handed over "
                            f"(fs = {fs:.6g}) on lines >= 2 (rel {e:.2e})", e, 1e-9))
        else:
            # 'cor': Hermitian-symmetric roles -- entry (i,j) pairs channel i with channel j of the same record: S_ii real part positive sum
            Sd = np.array([Sy[i, i, :].real.sum() for i in range(nch)])
            if not np.all(Sd > 0):
                out.append(("class-cor-auto-nonpositive", f"{where}: an auto spectrum sums to a non-positive value", Sd.tolist(), None))

    for si, step in enumerate(p["steps"]):
        op = step[0]
        if op == "setup":
            fs, N, amp = step[1], step[2], step[3]
            x = g.standard_normal((N, nch)) * amp
            x[:, -1] += 0.5 * x[:, 0]  # correlated channels
            originals.append((x, x.copy()))
            ss = SingleSetup(x, fs=fs)
            setups.append(ss)
            fs_true = float(fs)  # the sampling rate of the record as it is now, tracked here and not read back from the setup
        elif op == "add":
            for name in step[1]:
                ss.add_algorithms(algs[name][1])
                handed[name] = (np.array(ss.data, dtype=float, copy=True), fs_true)
        elif op == "decimate":
            n_before = ss.data.shape[0]
            ss.decimate_data(q=step[1])
            fs_true = fs_true / step[1]
            if ss.data.shape[0] != -(-n_before // step[1]):
                out.append(("class-decimate-length", f"decimate_data(q={step[1]}) left {ss.data.shape[0]} of {n_before} samples", None, None))
        elif op == "run":
            for name in step[1]:
                ss.run_by_name(name)
                verify(f"after steps {p['steps'][: si + 1]}", name)
        elif op == "run_all":
            ss.run_all()
            for name in list(ss.algorithms.keys()):
                verify("after run_all", name)
        elif op == "mpe":  # an extraction between two runs (FDD objects): the next run still uses the object's own parameters
            for name in step[1]:
                spec, alg = algs[name]
                if spec["cls"] != "FDD":
                    continue
                fs_h = handed[name][1]
                try:
                    ss.mpe(name, sel_freq=[0.2 * fs_h], DF=3 * fs_h / spec["nxseg"])
                except Exception as e:  # noqa: BLE001
                    out.append(("class-mpe-raises", f"FDD.mpe raised {type(e).__name__}: {str(e)[:80]}", None, None))
        elif op == "setparams":  # the run parameters REPLACED through the public set_run_params: the next run is the run of these
            name, new = step[1], step[2]
            spec, alg = algs[name]
            spec.update(new)
            from pyoma2.algorithms.data.run_params import FDDRunParams, pLSCFRunParams
            kw = dict(nxseg=spec["nxseg"], method_SD=spec["method"], pov=spec["pov"])
            # values equal to the class defaults are passed too, as a user would who wants to go back to them
            alg.set_run_params(pLSCFRunParams(ordmax=spec["ordmax"], **kw) if spec["cls"] == "pLSCF" else FDDRunParams(**kw))
        elif op == "recheck":  # results of objects that were not touched must not have changed either
            for name in step[1]:
                verify("re-read later in the session", name)
    for (x, x0) in originals:
        if not np.array_equal(x, x0):
            out.append(("class-input-modified", "the data array passed to SingleSetup was modified in place", None, None))
    return out


CHECKS = {"basic": check_basic, "psd": check_psd_parseval, "gaindelay": check_gain_delay, "sinusoid": check_sinusoid, "classlayer": check_classlayer,
          "gdexact": check_gain_delay_exact}


def _run_case(ctx, p):
    stats = {}
    vs = CHECKS[p["kind"]](p, stats)
    ctx.oracle_cases += 1
    ctx.nontrivial.add(("oracle", p["kind"], p["nxseg"], p["pov"], p.get("na"), p.get("nr"), p.get("delay"), p.get("k0")))
    if stats.pop("gd_dc_guarded", None):
        ctx.skipped += 1
        ctx.count("gaindelay_dc_line_guarded")
    for k, v in stats.items():
        ctx.dist["margin_" + k] = max(ctx.dist.get("margin_" + k, 0.0), v)
    for (sig, what, obs, exp) in vs:
        ctx.violation(sig, what, p, obs, exp)
    ctx.count("oracle_" + p["kind"])


def _nx(ctx, lo=16):
    rng = ctx.rng
    hi = 4096 if ctx.thorough else 512
    r = rng.random()
    if lo <= 16 and r < 0.05:
        # segment lengths as used on long records (an implementation may block or pad above some size)
        ctx.count("oracle_long_segment")
        return rng.choice([1024, 2048, 4096, 8192, 5000, 4098])
    if r < 0.5:
        return rng.choice([v for v in (16, 32, 64, 128, 256, 512, 1024, 2048, 4096) if lo <= v <= hi])
    if r < 0.85:
        return 8 * rng.randint((lo + 7) // 8, hi // 8)
    return rng.randint(lo, hi)


def _gen_classlayer(ctx, seed):
    rng = ctx.rng
    fss = [100.0, 51.2, 200.0, 256.0, 25.0, 1000.0, 12.5, 0.5]
    nch = rng.randint(2, 4)

    def spec(name, cls=None):
        n = rng.choice([32, 64, 128, 256, 100, 48])
        cls = cls or rng.choice(["FDD", "FDD", "pLSCF"])
        method = rng.choice(["per", "per", "cor"])
        pov = _pick_pov(rng, n) if method == "per" else 0.5
        if pov > 0.8:
            pov = 0.5
        return {"name": name, "cls": cls, "nxseg": n, "method": method, "pov": pov, "ordmax": rng.randint(3, 6)}

    a, b = spec("A"), spec("B")
    amp = 10.0 ** rng.randint(-8, 8)
    fs1 = rng.choice(fss)
    fs2 = rng.choice([f for f in fss if f != fs1])
    q = rng.choice([2, 3, 4, 5])
    N = lambda n, k=1: k * max(a["nxseg"], b["nxseg"]) * rng.randint(6, 12) + rng.randint(0, 50)  # noqa: E731
    scen = rng.choice(["decimate-readd", "second-setup", "run-twice", "two-objects", "decimate-not-readd", "decimate-twice", "run-mpe-run",
                       "set-params", "set-params"])
    if scen == "decimate-readd":
        steps = [["setup", fs1, N(0, q), amp], ["add", ["A", "B"]], ["run", ["A"]], ["decimate", q], ["add", ["A"]], ["run", ["A"]],
                 ["add", ["B"]], ["run", ["B"]], ["recheck", ["A"]]]
    elif scen == "second-setup":
        steps = [["setup", fs1, N(0), amp], ["add", ["A"]], ["run_all"], ["setup", fs2, N(0), amp * 10.0 ** rng.randint(-3, 3)],
                 ["add", ["A", "B"]], ["run_all"]]
    elif scen == "run-twice":
        steps = [["setup", fs1, N(0), amp], ["add", ["A", "B"]], ["run", ["A"]], ["run", ["A", "B"]], ["recheck", ["A"]]]
    elif scen == "two-objects":
        steps = [["setup", fs1, N(0), amp], ["add", ["A"]], ["run", ["A"]], ["setup", fs2, N(0), amp], ["add", ["B"]], ["run", ["B"]],
                 ["recheck", ["A", "B"]]]
    elif scen == "set-params":
        # run with non-default spectral parameters, replace them (half of the time by the CLASS DEFAULTS nxseg 1024 / 'per' / 0.5,
        # written out), run again: the second result is the result of the parameters in force at the second run
        a["method"], a["pov"], a["nxseg"] = "cor", 0.5, rng.choice([64, 128, 100])
        if rng.random() < 0.5:
            a["method"], a["pov"] = "per", rng.choice([0.25, 0.75])
        new = {"nxseg": 1024, "method": "per", "pov": 0.5} if rng.random() < 0.5 else {"nxseg": rng.choice([32, 256, 48]), "method": rng.choice(["per", "cor"]), "pov": 0.5}
        steps = [["setup", fs1, max(N(0), 1024 * 6 + rng.randint(0, 50)), amp], ["add", ["A"]], ["run", ["A"]], ["setparams", "A", new], ["run", ["A"]]]
    elif scen == "run-mpe-run":  # run, extract, run again (e.g. run_all after a second algorithm was added)
        a["cls"] = "FDD"
        steps = [["setup", fs1, N(0), amp], ["add", ["A"]], ["run", ["A"]], ["mpe", ["A"]], ["add", ["B"]], ["run_all"], ["recheck", ["A"]]]
    elif scen == "decimate-twice":  # two decimations in a row, then analysis: lines every fs/(q q2)/nxseg
        q2 = rng.choice([2, 3])
        steps = [["setup", fs1, N(0, q * q2), amp], ["decimate", q], ["decimate", q2], ["add", ["A", "B"]], ["run", ["A", "B"]]]
    else:  # the object keeps the record it was handed (not re-added): result must describe THAT record
        steps = [["setup", fs1, N(0, q), amp], ["add", ["A"]], ["run", ["A"]], ["decimate", q], ["run", ["A"]], ["add", ["B"]], ["run", ["B"]]]
    return {"kind": "classlayer", "npseed": seed, "nxseg": a["nxseg"], "pov": a["pov"], "na": nch, "nch": nch, "scenario": scen,
            "algs": [a, b], "steps": steps}


def oracle(ctx, scale):
    rng = ctx.rng
    seed = lambda: rng.getrandbits(40)  # noqa: E731
    dts = [0.01, 1 / 256, 0.005, 1.0, 0.0371]
    # (1) Welch equivalence, grid, pairing, bilinearity, g^2
    for _ in range(ctx.n(30, 300) * scale):
        n = _nx(ctx)
        pov = _pick_pov(rng, n)
        na = rng.randint(1, 8)
        nr = rng.randint(1, 4)
        nseg = rng.randint(2, 6)
        Ndat = n * nseg + rng.randint(0, n - 1)
        p = {"kind": "basic", "npseed": seed(), "nxseg": n, "pov": pov, "na": na, "nr": nr, "Ndat": Ndat,
             "dt": rng.choice(dts), "gain": round(rng.choice([-1, 1]) * 10 ** rng.uniform(-1, 1), 4),
             "amp": 10.0 ** rng.randint(-2, 2)}
        if rng.random() < 0.5 and nr <= na:
            p["ref_rows"] = sorted(rng.sample(range(na), nr))
        _run_case(ctx, p)
    # (2) Hermitian PSD (+ Parseval on long records)
    for _ in range(ctx.n(12, 120) * scale):
        n = _nx(ctx)
        pov = _pick_pov(rng, n)
        na = rng.randint(1, 8)
        p = {"kind": "psd", "npseed": seed(), "nxseg": n, "pov": pov, "na": na,
             "Ndat": n * rng.randint(2, 12) + rng.randint(0, n - 1), "dt": rng.choice(dts),
             "mix": rng.random() < 0.5, "colour": rng.random() < 0.5}
        _run_case(ctx, p)
    for _ in range(ctx.n(6, 60) * scale):
        n = _nx(ctx, lo=128)
        pov = _pick_pov(rng, n)
        p = {"kind": "psd", "npseed": seed(), "nxseg": n, "pov": pov, "na": rng.randint(1, 3),
             "Ndat": max(120000, 40 * n) + rng.randint(0, n), "dt": rng.choice(dts), "parseval": True,
             "mix": rng.random() < 0.5, "colour": rng.random() < 0.5}
        _run_case(ctx, p)
    # (3) gain and delay, both estimators
    for _ in range(ctx.n(10, 100) * scale):
        n = 64 * rng.randint(1, (4096 if ctx.thorough else 512) // 64)
        if rng.random() < 0.5:
            n = rng.choice([v for v in (64, 128, 256, 512, 1024, 2048, 4096) if v <= (4096 if ctx.thorough else 512)])
        d = rng.randint(0, n // 64)
        p = {"kind": "gaindelay", "npseed": seed(), "nxseg": n, "pov": _pick_pov(rng, n), "delay": d,
             "gain": rng.choice([-1, 1]) * 10 ** rng.uniform(-1, 1), "Ndat": n * 400, "dt": rng.choice(dts)}
        _run_case(ctx, p)
    # (4) grid-line sinusoids
    for _ in range(ctx.n(25, 400) * scale):
        n = _nx(ctx)
        if n % 2:
            n += 1
        p = {"kind": "sinusoid", "npseed": seed(), "nxseg": n, "pov": _pick_pov(rng, n), "na": rng.randint(2, 5),
             "k0": rng.randint(2, n // 2 - 2), "Ndat": n * rng.randint(2, 6) + rng.randint(0, n - 1), "dt": rng.choice(dts)}
        _run_case(ctx, p)
    # (5) the class layer: FDD / pLSCF results through SingleSetup, multi-step sessions
    _oracle_classlayer(ctx, scale)
    # (6) exact gain-and-delay on records satisfying the hypotheses of sd_cor_gain_delay / sd_per_gain_delay
    for _ in range(ctx.n(20, 300) * scale):
        n = _nx(ctx)
        if n % 2:
            n += 1
        p = {"kind": "gdexact", "npseed": seed(), "nxseg": n, "pov": _pick_pov(rng, n), "dt": rng.choice(dts),
             "delay": rng.randint(0, n - 1), "delay_cor": rng.randint(1, max(1, n // 8)),
             "gain": rng.choice([-1, 1]) * 10 ** rng.uniform(-1, 1), "nseg": rng.randint(1, 4), "extra": rng.randint(0, 5),
             "Ndat_per": n * rng.randint(2, 5) + rng.randint(0, n - 1)}
        _run_case(ctx, p)


def _oracle_classlayer(ctx, scale):
    seed = lambda: ctx.rng.getrandbits(40)  # noqa: E731
    for _ in range(ctx.n(14, 150) * scale):
        p = _gen_classlayer(ctx, seed())
        _run_case(ctx, p)
        ctx.count("class_" + p["scenario"])


def replay(rec):
    v = rec["violation"]
    p = v["input"]
    print("replaying", v["sig"], "-", v["what"])
    print("parameters:", p)
    stats = {}
    vs = CHECKS[p["kind"]](p, stats)
    print("statistics:", stats)
    for (sig, what, obs, exp) in vs:
        print("VIOLATION reproduced:", sig, "-", what)
    return 1 if vs else 0
