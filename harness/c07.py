"""C07 — EFDD/FSDD recover frequency and damping of an exact SDOF spectral bell
(fdd.SDOF_bellandMS, fdd.EFDD_mpe)."""
import math

import numpy as np

from common import R, Rvec, Cx, fl, cfl

from common import wiring_pre_build as pre_build  # noqa: E402,F401

LEAN_MODULES = ["PyomaVerif.Props.C07", "PyomaVerif.Mutants.C07", "PyomaVerif.Props.WiringMpe"]
THEOREMS = [
    # call-site wiring of the class layer, regenerated from /repo on every run (translate_wiring.py)
    "PV.WiringMpe.C07_efdd_mpe_wiring",
    "PV.C07.C07_normCorr_scale",
    "PV.C07.C07_bell_scale_fsdd",
    "PV.C07.C07_bell_scale_efdd",
    "PV.C07.C07_pick_scale",
    "PV.C07.C07_scale",
    "PV.C07.C07_bell_efdd",
    "PV.C07.C07_slope_exact",
    "PV.C07.C07_logdec",
    "PV.C07.C07_zeroCross",
    "PV.C07.C07_extrema",
    "PV.C07.C07_interleave",
    "PV.C07.C07_timeaxis",
    "PV.Mutants.C07.sqrt_bell_not_proportional",
    "PV.Mutants.C07.no_factor_two_fails",
]
RULE = (
    "correspondence: fdd.SDOF_bellandMS vs Efdd.sdofBell with np.linalg.svd wrapped and its recorded output handed to the "
    "model (band limits, MAC mask pattern exact; bell values 1e-12; MAC within 1e-9 of MAClim skipped); the post-FFT part of "
    "fdd.EFDD_mpe vs Efdd.normCorr/postFft/slope/lamOf/xiOf/fnOf with np.fft.ifft wrapped (pass-through on SDOF bells, or "
    "replaced by synthetic decays / noise so that the real post-processing runs on arbitrary sequences): peak indices exact, "
    "time axis, decrements, slope (closed form vs curve_fit, 1e-7), lam, xi, fn at 1e-12, IndexError branch. oracle (from the "
    "property text): analytic SDOF bells over the stated domain through EFDD_mpe and through EFDD/FSDD classes: fn 2.5 %, "
    "xi 15 %, MAC 0.999, invariance under a positive factor 1e-9. distinct = (path, method, nxseg, channels, source kind)"
)
EXTRA_TRUSTED = [
    "np.linalg.svd, np.fft.ifft (linear), np.log, np.sqrt, scipy curve_fit (closed form Σkδ/Σk² compared on every case)",
    "the accuracy tolerances 2.5 % / 15 % / MAC 0.999 are validated by search on the real code, not proved",
]
ASSUMPTIONS = [
    "exact ties between correlation samples and exact zeros in the normalised correlation are outside the compared domain",
    "oracle domain as in the property: fn/fs in [0.04,0.25], xi in [2,5] %, >=4 lines per half-power bandwidth, >=30 periods in the half record, DF2 in [4,8] bandwidths, DF1 = max(2 lines, one bandwidth)",
]


def _fdd():
    from pyoma2.functions import fdd

    return fdd


# ----------------------------------------------------------------------------- correspondence helpers
def _sdof_sy(g, nch, nf, fs, fnr, xi, floor=1e-6, second=None):
    nx = 2 * (nf - 1)
    freq = np.arange(nf) * fs / nx
    w = 2 * np.pi * freq
    wn = 2 * np.pi * fnr * fs
    S = 1 / ((wn**2 - w**2) ** 2 + (2 * xi * wn * w) ** 2)
    phi = g.standard_normal(nch)
    Sy = np.einsum("i,j,f->ijf", phi, phi, S).astype(complex)
    if second is not None:  # a second mode close by: non-trivial MAC mask
        f2, x2 = second
        w2 = 2 * np.pi * f2 * fs
        S2 = 1 / ((w2**2 - w**2) ** 2 + (2 * x2 * w2 * w) ** 2)
        p2 = g.standard_normal(nch) + 1j * g.standard_normal(nch) * 0.3
        Sy = Sy + np.einsum("i,j,f->ijf", p2.conj(), p2, S2) * (S.max() / S2.max()) * g.uniform(0.2, 1.5)
    Sy = Sy + floor * np.abs(Sy).max() * np.eye(nch)[:, :, None]
    return freq, Sy, phi


def _bell_case(ctx):
    fdd = _fdd()
    rng = ctx.rng
    g = ctx.nprng()
    nch = rng.randint(2, 4)
    nf = rng.randint(16, 48)
    fs = rng.choice([10.0, 100.0, 37.5])
    fnr = rng.uniform(0.1, 0.4)
    freq, Sy, phi = _sdof_sy(g, nch, nf, fs, fnr, rng.uniform(0.02, 0.1), second=(fnr + rng.uniform(-0.06, 0.06), rng.uniform(0.02, 0.1)))
    dt = 1 / fs
    method = rng.choice(["FSDD", "EFDD", "EFDD", "other"])
    cm = rng.choice([1, 1, 2])
    MAClim = rng.choice([0.85, rng.uniform(0.3, 0.99)])
    sel = fnr * fs * rng.uniform(0.95, 1.05)
    DF = rng.uniform(0.03, 0.2) * fs
    k0 = int(np.argmin(np.abs(freq - sel)))
    u = np.linalg.svd(Sy[:, :, k0])[0][:, 0].conj()
    phi_FDD = u / u[np.argmax(np.abs(u))]
    real_svd = np.linalg.svd
    rec = []

    def spy(a, *args, **kw):
        out = real_svd(a, *args, **kw)
        rec.append((np.array(out[0]), np.array(out[1])))
        return out

    np.linalg.svd = spy
    try:
        bell, ms = fdd.SDOF_bellandMS(Sy, dt, sel, phi_FDD, method, cm, MAClim, DF)
    finally:
        np.linalg.svd = real_svd
    sq = [np.sqrt(S) for (_, S) in rec]
    out = ctx.model(
        "sdof_bell",
        method=method, nch=nch, cm=cm, nf=nf, dt=R(dt),
        Sy=[[[Cx(Sy[i, j, l]) for l in range(nf)] for j in range(nch)] for i in range(nch)],
        Sval=[[R(sq[l][c]) for l in range(nf)] for c in range(cm)],
        Svec=[[[Cx(np.conj(rec[l][0][i, c])) for l in range(nf)] for i in range(nch)] for c in range(cm)],
        phi=[Cx(z) for z in phi_FDD], sel=R(sel), DF=R(DF), MAClim=R(MAClim),
    )
    macs = [fl(v) for row in out["mac"] for v in row if v is not None]
    if any(abs(m - MAClim) < 1e-9 for m in macs):
        ctx.skipped += 1
        return
    mb = np.array([cfl(z) for z in out["bell"]])
    mask_model = np.array(out["mask"], bool)  # [cm][nf]
    # implementation's mask: rows of SDOFms that are non-zero (sum over close modes)
    mask_impl = np.any(ms != 0, axis=1)
    sc = max(np.abs(bell).max(), 1e-300)
    ok = (
        bell.shape == mb.shape
        and np.array_equal(bell != 0, mb != 0)
        and np.abs(bell - mb).max() <= 1e-12 * sc
        and (method == "other" or np.array_equal(mask_impl, mask_model.any(axis=0)))
    )
    if method == "other":  # neither branch taken: bell and shapes stay zero
        ok = ok and not mb.any() and not mask_impl.any()
    ctx.corr(
        "fdd.SDOF_bellandMS", bool(ok),
        {"method": method, "nch": nch, "nf": nf, "cm": cm, "MAClim": MAClim, "sel": sel, "DF": DF, "dt": dt},
        {"lo": out["lo"], "hi": out["hi"], "mask": mask_model.astype(int).tolist()},
        {"support": np.nonzero(bell)[0].tolist(), "mask": mask_impl.astype(int).tolist()},
        (method, nch, cm, int(mask_model.sum()) > 0, int(mask_model.sum()) < (out["hi"] - out["lo"]) * cm),
    )
    ctx.count(f"bell_{method}")
    ctx.count("bell_mask_lines", int(mask_model.sum()))
    ctx.count("bell_band_lines", max(0, out["hi"] - out["lo"]) * cm)


def _synthetic_corr(ctx, n, kind):
    """a sequence of length n to be returned in place of the inverse FFT"""
    g = ctx.nprng()
    rng = ctx.rng
    t = np.arange(n)
    if kind == "decay":
        per = rng.uniform(6, 25)
        xi = rng.uniform(0.005, 0.08)
        x = np.exp(-xi * 2 * np.pi * t / per) * np.cos(2 * np.pi * t / per + rng.uniform(-0.3, 0.3))
        x = x + rng.choice([0, 1e-4, 1e-2]) * g.standard_normal(n)
    elif kind == "beat":
        p1, p2 = rng.uniform(6, 20), rng.uniform(6, 20)
        x = np.exp(-0.002 * t) * (np.cos(2 * np.pi * t / p1) + rng.uniform(0.2, 0.9) * np.cos(2 * np.pi * t / p2 + 1.0))
    else:  # smoothed noise: irregular crossings
        w = rng.randint(2, 6)
        x = np.convolve(g.standard_normal(n + w), np.ones(w) / w, mode="valid")[:n]
    x = x * rng.choice([1.0, 3.7, 1e-6, -2.0 if kind == "noise" else 1.0])
    return x.astype(complex) + 1j * g.standard_normal(n) * 0.1  # imaginary part is discarded by the code


def _post_case(ctx, k):
    fdd = _fdd()
    rng = ctx.rng
    g = ctx.nprng()
    nch = rng.randint(2, 3)
    kind = rng.choice(["ifft", "ifft", "decay", "decay", "beat", "noise"])
    nf = rng.choice([65, 129, 257]) if kind == "ifft" else rng.randint(40, 160)
    fs = rng.choice([20.0, 100.0, 512.0])
    dt = 1 / fs
    fnr = rng.uniform(0.12, 0.3)
    xi = rng.uniform(0.01, 0.05)
    freq, Sy, phi = _sdof_sy(g, nch, nf, fs, fnr, xi, floor=1e-8)
    method = rng.choice(["FSDD", "EFDD"])
    msy = rng.choice(["per", "cor", "paer"])
    sppk = rng.choice([3, 3, 0, 1, 5])
    npmax = rng.choice([20, 20, 2, 5, 9]) if kind != "noise" else rng.choice([2, 3, 6])
    if rng.random() < 0.1:
        npmax = 200  # IndexError branch
    real_ifft = np.fft.ifft
    real_cf = fdd.curve_fit
    rec = {}

    def ifft_spy(a, *args, **kw):
        out = real_ifft(a, *args, **kw)
        if kind != "ifft":
            out = _synthetic_corr(ctx, len(out), kind)
        rec["corr"] = np.array(out.real)
        return out

    def cf_spy(f, x, y, *args, **kw):
        out = real_cf(f, x, y, *args, **kw)
        rec["cf"] = (np.array(x), np.array(y), float(out[0][0]))
        return out

    np.fft.ifft = ifft_spy
    fdd.curve_fit = cf_spy
    err = None
    try:
        Fn, Xi, Phi, PP = fdd.EFDD_mpe(
            Sy, freq, dt, [fnr * fs], msy, method=method, DF1=max(2 * fs / (2 * (nf - 1)), 2 * xi * fnr * fs),
            DF2=rng.uniform(3, 8) * 2 * xi * fnr * fs + 3 * fs / (2 * (nf - 1)), sppk=sppk, npmax=npmax,
        )
    except (IndexError, ValueError) as e:
        err = type(e).__name__
    finally:
        np.fft.ifft = real_ifft
        fdd.curve_fit = real_cf
    if "corr" not in rec:
        ctx.skipped += 1
        return
    corr = rec["corr"]
    n = len(corr)
    inp = {"kind": kind, "nf": nf, "dt": dt, "sppk": sppk, "npmax": npmax, "methodSy": msy, "method": method, "corr": corr.tolist()}
    key = (kind, msy, sppk, npmax, err is None)
    if np.any(corr == 0) or not np.all(np.isfinite(corr)) or corr[np.argmax(corr)] == 0:
        ctx.skipped += 1
        return
    # (a) normalisation
    nc = ctx.model("norm_corr", corr=Rvec(corr))
    x_code = corr[: n // 2] / corr[np.argmax(corr)]
    xm = np.array([fl(v) for v in nc["x"]])
    ok_a = nc["argmax"] == int(np.argmax(corr)) and xm.shape == x_code.shape and np.all(np.abs(xm - x_code) <= 4e-16 * np.abs(x_code))
    if err is None:
        ok_a = ok_a and np.array_equal(PP[0][5], x_code)
    ctx.corr("EFDD_mpe[normalise]", bool(ok_a), {k_: inp[k_] for k_ in ("kind", "nf")}, None, None, key)
    # (b) extrema / indices / time axis / decrements on the code's own normalised correlation
    post = ctx.model("efdd_post", nf=nf, x=Rvec(x_code), dt=R(dt), sppk=sppk, npmax=npmax)
    if err is not None or "error" in post:
        ok = err is not None and "error" in post and post["error"].startswith(err)
        ctx.corr("EFDD_mpe[post-FFT]", bool(ok), inp, post.get("error"), err, key)
        ctx.count("post_error_branch")
        return
    pp = PP[0]
    time_code, idx_code, lam_code, delta_code = pp[1], np.asarray(pp[6]), float(np.ravel(pp[7])[0]), np.asarray(pp[8])
    tm = ctx.model("efdd_time", nf=nf, dt=R(dt))
    ok = tm["n"] == len(time_code) and abs(fl(tm["step"]) - (time_code[1] - time_code[0])) <= 1e-12 * time_code[1]
    ok = ok and post["fit_idx"] == idx_code.tolist()
    ratios = np.array([fl(v) for v in post["ratios"]])
    delta_model = np.log(ratios)
    ok = ok and delta_model.shape == delta_code.shape and np.all(np.abs(delta_model - delta_code) <= 1e-12 * (1 + np.abs(delta_code)))
    # fitted values are the correlation samples at the fitted indices (index recovery consistent)
    ok = ok and [fl(v) for v in post["fit_vals"]] == [float(x_code[i]) for i in post["fit_idx"]] if _distinct(x_code) else ok
    Td_code = np.diff(time_code[idx_code]) * 2
    Tdm = np.array([fl(v) for v in post["Td"]])
    ok = ok and Tdm.shape == Td_code.shape and np.all(np.abs(Tdm - Td_code) <= 1e-12 * np.abs(time_code[-1]))
    fd_model = fl(post["fd"])
    # (c) fit: closed-form slope on the code's own decrements vs curve_fit; lam, xi, fn
    xdat, ydat, m_cf = rec["cf"]
    log001 = float(np.log(0.01))
    fit0 = ctx.model("efdd_fit", delta=Rvec(ydat), method_sy=msy, nf=nf, log001=R(log001))
    lam_m = fl(fit0["lam"])
    ok_slope = abs(fl(fit0["slope"]) - m_cf) <= 1e-7 * max(abs(m_cf), 1e-12) and np.array_equal(xdat, np.arange(npmax))
    ok_lam = abs(lam_m - lam_code) <= 2e-7 * max(abs(lam_code), abs(m_cf), 1e-12)
    # xi and fn from the code's own lam (so that only formula and rounding are compared)
    s1 = float(np.sqrt(4 * np.pi**2 + lam_code**2))
    xi_f = lam_code / s1
    s2 = float(np.sqrt(1 - xi_f**2))
    fit = ctx.model("efdd_xifn", lam=R(lam_code), pi=R(math.pi), sqrt1=R(s1), fd=(None if math.isnan(fd_model) else R(fd_model)), sqrt2=R(s2))
    xi_code, fn_code = float(np.ravel(Xi)[0]), float(np.ravel(Fn)[0])
    ok_x = abs(fl(fit["xi"]) - xi_code) <= 1e-12 * abs(xi_code) and abs(fl(fit["arg1"]) - (4 * np.pi**2 + lam_code**2)) <= 1e-12 * s1**2
    ok_f = (math.isnan(fn_code) and math.isnan(fl(fit["fn"]))) or abs(fl(fit["fn"]) - fn_code) <= 1e-11 * abs(fn_code)
    ctx.corr(
        "EFDD_mpe[post-FFT]", bool(ok and ok_slope and ok_lam and ok_x and ok_f), inp,
        {"fit_idx": post["fit_idx"], "slope": fl(fit0["slope"]), "lam": lam_m, "xi": fl(fit["xi"]), "fn": fl(fit["fn"]),
         "flags": [bool(ok), bool(ok_slope), bool(ok_lam), bool(ok_x), bool(ok_f)]},
        {"fit_idx": idx_code.tolist(), "slope": m_cf, "lam": lam_code, "xi": xi_code, "fn": fn_code}, key,
    )
    ctx.count(f"post_{kind}")
    ctx.count(f"post_methodSy_{msy}")
    ctx.count("post_crossings", len(post["zc"]))
    if k < 2:
        ctx.sample({"kind": kind, "nf": nf, "sppk": sppk, "npmax": npmax, "fit_idx_head": post["fit_idx"][:6], "lam": lam_code, "xi": xi_code})


def _distinct(x):
    return len(np.unique(x)) == len(x)


def correspondence(ctx):
    for _ in range(ctx.n(30, 300)):
        _bell_case(ctx)
    for k in range(ctx.n(60, 600)):
        _post_case(ctx, k)


# ----------------------------------------------------------------------------- oracle
def _domain_case(rng):
    while True:
        # "any fs": round and non-round sampling periods, Hz to tens of kHz
        fs = float(rng.choice([20.0, 50.0, 100.0, 1000.0, 1200.0, 2048.0, 3000.0, 4096.0, 44100.0, rng.uniform(5, 2000), 10.0 ** rng.uniform(-1, 5)]))
        nxseg = int(rng.choice([1024, 2048, 4096, 8192]))
        xi = rng.uniform(0.02, 0.05)
        lo = max(0.04, 2 / (xi * nxseg), 60 / nxseg)  # >= 4 lines per bandwidth, >= 30 periods in the half record
        if lo >= 0.25:
            continue
        return fs, nxseg, xi, rng.uniform(lo, 0.25), rng.randint(2, 6), rng.uniform(4.0, 8.0)


def _analytic(fs, nxseg, xi, fnr, phi, level=None):
    """level None: the spectrum in its natural units; else: peak spectral density scaled to `level`
    (the claim is for the analytic spectral density up to any positive constant)"""
    fn = fnr * fs
    nf = nxseg // 2 + 1
    freq = np.arange(nf) * fs / nxseg
    w = 2 * np.pi * freq
    wn = 2 * np.pi * fn
    S = 1 / ((wn**2 - w**2) ** 2 + (2 * xi * wn * w) ** 2)
    if level is not None:
        S = S / np.max(S) * level
    Sy = np.einsum("i,j,f->ijf", phi, phi, S) + 1e-9 * np.max(S) * np.eye(len(phi))[:, :, None]
    return freq, Sy.astype(complex), fn


def _mac(x, y):
    return abs(np.vdot(x, y)) ** 2 / (np.vdot(x, x).real * np.vdot(y, y).real)


def _run_fn(fdd, freq, Sy, fs, fn, xi, nxseg, method, kbw):
    bw = 2 * xi * fn
    Fn, Xi, Phi, _ = fdd.EFDD_mpe(Sy, freq, 1 / fs, [fn], "per", method=method, DF1=max(2 * fs / nxseg, bw), DF2=kbw * bw)
    return float(np.ravel(Fn)[0]), float(np.ravel(Xi)[0]), np.asarray(Phi)[:, 0]


def _run_class(fdd, freq, Sy, fs, fn, xi, nxseg, method, kbw):
    """through the setup and the algorithm class (sampling frequency handed over by SingleSetup.add_algorithms);
    the exact spectral result is installed as if run() had produced it"""
    from pyoma2.algorithms import EFDD, FSDD
    from pyoma2.setup import SingleSetup

    cls = {"EFDD": EFDD, "FSDD": FSDD}[method]
    alg = cls(name="a", nxseg=nxseg, method_SD="per")
    ss = SingleSetup(np.zeros((8, Sy.shape[0])), fs)
    ss.add_algorithms(alg)
    Sval, Svec = fdd.SD_svalsvec(Sy)
    alg.result = alg.ResultCls(freq=freq, Sy=Sy, S_val=Sval, S_vec=Svec)
    bw = 2 * xi * fn
    sel = [fn]
    ss.mpe("a", sel_freq=sel, DF1=max(2 * fs / nxseg, bw), DF2=kbw * bw)
    if sel != [fn]:
        raise AssertionError("mpe modified the caller's sel_freq")
    return float(alg.result.Fn[0]), float(alg.result.Xi[0]), np.asarray(alg.result.Phi)[:, 0]


def _judge(ctx, path, fs, nxseg, xi, fnr, nch, kbw, phi, runner, do_scale, level=None):
    fdd = _fdd()
    freq, Sy, fn = _analytic(fs, nxseg, xi, fnr, phi, level)
    inp = {"path": path, "level": level, "fs": fs, "nxseg": nxseg, "xi": xi, "fn": fn, "fn_over_fs": fnr, "phi": phi.tolist(), "DF2_bandwidths": kbw,
           "spectrum": "S(f)=1/((wn^2-w^2)^2+(2 xi wn w)^2) * phi phi^T + 1e-9 max(S) I, f_k = k fs/nxseg"}
    res = {}
    for method in ("EFDD", "FSDD"):
        try:
            res[method] = runner(fdd, freq, Sy, fs, fn, xi, nxseg, method, kbw)
        except Exception as e:  # the property promises estimates on this domain
            res[method] = e
        ctx.oracle_cases += 1
        ctx.nontrivial.add(("oracle", path, method, nxseg, nch))
    bad = {"exc": [], "fn": [], "xi": [], "mac": []}
    obs = {}
    for method, r in res.items():
        if isinstance(r, Exception):
            bad["exc"].append(method)
            obs[method] = f"{type(r).__name__}: {r}"
            continue
        f, x, P = r
        ef, ex, mc = abs(f - fn) / fn, abs(x - xi) / xi, _mac(P, phi)
        obs[method] = {"fn": f, "xi": x, "fn_err": ef, "xi_err": ex, "mac": float(mc)}
        ctx.dist["worst_fn_err_ppm"] = max(ctx.dist.get("worst_fn_err_ppm", 0), int(ef * 1e6))
        ctx.dist["worst_xi_err_ppm"] = max(ctx.dist.get("worst_xi_err_ppm", 0), int(ex * 1e6))
        if not ef <= 0.025:
            bad["fn"].append(method)
        if not ex <= 0.15:
            bad["xi"].append(method)
        if not mc >= 0.999:
            bad["mac"].append(method)
    exp = {"fn": fn, "xi": xi, "tolerances": "fn 2.5 %, xi 15 %, MAC 0.999"}
    for what, methods in bad.items():
        if methods:
            who = "both" if len(methods) == 2 else methods[0] + "-only"
            msg = "exception instead of an estimate" if what == "exc" else f"{what} outside tolerance"
            ctx.violation(f"{what}-error-{who}", f"{path}: {msg} for {methods} (fn/fs={fnr:.4f}, xi={xi:.4f}, nxseg={nxseg}, fs={fs:g})",
                          inp, observed=obs, expected=exp)
    # invariance under a positive factor
    if do_scale:
        c = 10.0 ** ctx.rng.uniform(-12, 12)
        for method, r in res.items():
            if isinstance(r, Exception):
                continue
            try:
                f2, x2, P2 = runner(fdd, freq, c * Sy, fs, fn, xi, nxseg, method, kbw)
            except Exception as e:
                ctx.violation(f"scale-exception-{method}", f"{path}: exception after scaling by {c}: {e}", inp | {"c": c})
                continue
            ctx.oracle_cases += 1
            if not (abs(f2 - r[0]) <= 1e-9 * abs(r[0]) and abs(x2 - r[1]) <= 1e-9 * abs(r[1])):
                ctx.violation(f"scale-variance-{method}", f"{path}: estimates change when the spectrum is multiplied by {c}", inp | {"c": c},
                              observed={"fn": [r[0], f2], "xi": [r[1], x2]})


def oracle(ctx, scale):
    rng = ctx.rng
    for it in range(ctx.n(48, 500) * scale):
        fs, nxseg, xi, fnr, nch, kbw = _domain_case(rng)
        if not ctx.thorough and nxseg == 8192 and rng.random() < 0.5:
            nxseg = 2048
            if max(0.04, 2 / (xi * nxseg), 60 / nxseg) > fnr:
                continue
        g = ctx.nprng()
        phi = g.standard_normal(nch)
        phi = phi / phi[np.argmax(np.abs(phi))]
        via_class = it % 2 == 1
        # absolute level of the spectral matrix: natural units, or peak density anywhere in 1e-22 .. 1e12
        level = 10.0 ** rng.uniform(-22, 12) if rng.random() < 0.7 else None
        _judge(ctx, "EFDD/FSDD.mpe" if via_class else "EFDD_mpe", fs, nxseg, xi, fnr, nch, kbw, phi,
               _run_class if via_class else _run_fn, do_scale=(it % 3 == 0), level=level)
        ctx.count("oracle_level_below_1e-14" if (level is not None and level < 1e-14) else "oracle_level_other")
        ctx.count("oracle_fs_kHz" if fs >= 1000 else "oracle_fs_below_kHz")
        ctx.count(f"oracle_nxseg_{nxseg}")
        ctx.count("oracle_via_class" if via_class else "oracle_via_function")


def replay(rec):
    fdd = _fdd()
    v = rec["violation"]
    inp = v["input"]
    print("replaying", v["sig"], "-", v["what"])
    phi = np.array(inp["phi"])
    fs, nxseg, xi = inp["fs"], inp["nxseg"], inp["xi"]
    freq, Sy, fn = _analytic(fs, nxseg, xi, inp["fn_over_fs"], phi, inp.get("level"))
    runner = _run_class if inp["path"].startswith("EFDD/FSDD") else _run_fn
    rc = 0
    for method in ("EFDD", "FSDD"):
        try:
            f, x, P = runner(fdd, freq, Sy, fs, fn, xi, nxseg, method, inp["DF2_bandwidths"])
        except Exception as e:
            print(method, "exception", type(e).__name__, e)
            rc = 1
            continue
        ef, ex, mc = abs(f - fn) / fn, abs(x - xi) / xi, _mac(P, phi)
        print(f"{method}: fn {f:.6g} (true {fn:.6g}, err {ef:.3%})  xi {x:.5f} (true {xi:.5f}, err {ex:.2%})  MAC {mc:.6f}")
        if ef > 0.025 or ex > 0.15 or mc < 0.999:
            rc = 1
        if "c" in inp:
            f2, x2, _ = runner(fdd, freq, Sy * inp["c"], fs, fn, xi, nxseg, method, inp["DF2_bandwidths"])
            same = abs(f2 - f) <= 1e-9 * abs(f) and abs(x2 - x) <= 1e-9 * abs(x)
            print(f"{method}: spectrum x {inp['c']:.3g}: fn {f2:.6g} xi {x2:.5f} -> {'unchanged' if same else 'CHANGED'}")
            if not same:
                rc = 1
    return rc
