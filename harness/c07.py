"""C07 — EFDD/FSDD recover frequency and damping of an exact SDOF spectral bell
(fdd.SDOF_bellandMS, fdd.EFDD_mpe)."""
import math

import numpy as np

from common import R, Rvec, Cx, fl, cfl, ModelError

from common import all_pre_build as pre_build  # noqa: E402,F401  (wiring + hc + fncalls translators)

LEAN_MODULES = ["PyomaVerif.Props.C07", "PyomaVerif.Props.C07Bell", "PyomaVerif.Mutants.C07", "PyomaVerif.Props.WiringMpe", "PyomaVerif.Props.C07All", "PyomaVerif.Props.WiringCalls", "PyomaVerif.Props.C07Rect", "PyomaVerif.Props.WiringFn", "PyomaVerif.Props.C07Floor"]
THEOREMS = [
    # the exact sequence of core-routine calls of the run()/mpe() body and the exact set of parameters bound at each (regenerated call table)
    "PV.WiringCalls.C06_mpe_calls",
    # the calls INSIDE fdd.EFDD_mpe (SD_svalsvec, FDD_mpe with DF1, SDOF_bellandMS with DF2), regenerated (translate_fncalls.py)
    "PV.WiringFn.C07_efdd_inner_calls",
    # call-site wiring of the class layer, regenerated from /repo on every run (translate_wiring.py)
    "PV.WiringMpe.C07_efdd_mpe_wiring",
    "PV.C07.C07_normCorr_scale",
    "PV.C07.C07_bell_scale_fsdd",
    "PV.C07.C07_bell_scale_efdd",
    "PV.C07.C07_pick_scale",
    "PV.C07.C07_scale",
    "PV.C07.C07_bell_efdd",
    "PV.C07.C07_slope_exact",
    "PV.C07.C07_logdec",
    "PV.C07.C07_zeroCross",
    "PV.C07.C07_extrema",
    "PV.C07.C07_interleave",
    "PV.C07.C07_timeaxis",
    # depth extension: the bell on structured spectra (Props/C07Bell.lean, Lemmas/Bell.lean)
    "PV.C07Bell.C07_mask_select",
    "PV.C07Bell.C07_bell_select",
    "PV.C07Bell.C07_dominant",
    "PV.C07Bell.C07_bell_dominant",
    "PV.C07Bell.C07_fsdd_value",
    "PV.C07Bell.C07_fsdd_value_ref",
    "PV.C07Bell.C07_floor_apply",
    "PV.C07Bell.C07_floor_eigen",
    "PV.C07Bell.C07_floor_quadForm",
    "PV.C07Bell.C07_sdof_floor",
    "PV.C07Bell.C07_sdof_floor_proportional",
    "PV.C07Bell.C07_bell_structured",
    "PV.C07Bell.C07_bell_orthonormal",
    "PV.C07Bell.C07_structured_singular",
    "PV.C07Bell.C07_bell_structured_coded",
    "PV.C07Bell.C07_bell_structured_coded_real",
    "PV.C07Bell.C07_bell_scale_support",
    "PV.C07Bell.C07_ifft_homogeneous",
    "PV.C07Bell.C07_scale_ifft",
    "PV.C07Bell.C07_mask_unitary",
    "PV.C07Bell.C07_bell_unitary",
    "PV.C07Bell.C07_fsdd_complex_shape_witness",
    "PV.Mutants.C07.sqrt_bell_not_proportional",
    "PV.Mutants.C07.no_factor_two_fails",
    # depth round: EFDD_mpe as one composed model (Model/EfddAll.lean, Props/C07All.lean)
    "PV.C07All.C07_svalsvec_scale",
    "PV.C07All.C07_first_stage_scale",
    "PV.C07All.C07_one_scale",
    "PV.C07All.C07_scale_all",
    "PV.C07All.C07_scale_estimates",
    "PV.C07All.C07_idxOf",
    "PV.C07All.C07_idxOf_recovers",
    "PV.C07All.C07_idxOf_window",
    "PV.C07All.C07_idxOf_leaves_window_witness",
    "PV.C07All.C07_selectFit",
    "PV.C07All.C07_post_ok_iff",
    "PV.C07All.C07_post_fit",
    "PV.C07All.C07_fd_spacing",
    "PV.C07All.C07_fd_equispaced",
    "PV.C07All.C07_one_spec",
    "PV.C07All.C07_mpe_spec",
    "PV.C07All.exRun_ok",
    # depth round 2: EFDD_mpe on a rectangular (half) spectrum (Model/EfddRect.lean, Props/C07Rect.lean)
    "PV.C07Rect.C07_rect_svalsvec_ok",
    "PV.C07Rect.C07_rect_svalsvec_lt",
    "PV.C07Rect.C07_rect_svalsvec_elim",
    "PV.C07Rect.C07_rect_lt_raises",
    "PV.C07Rect.C07_rect_efdd_guard_none",
    "PV.C07Rect.C07_rect_efdd_guard_none_le",
    "PV.C07Rect.C07_rect_square_one",
    "PV.C07Rect.C07_rect_square",
    "PV.C07Rect.C07_one_spec_rect",
    "PV.C07Rect.C07_mpe_spec_rect",
    "PV.C07Rect.C07_rect_fsdd_raises",
    "PV.C07Rect.C07_rect_cm_raises",
    "PV.C07Rect.exRunR_ok",
    "PV.C07Rect.exRunR_fsdd",
    "PV.C07Rect.exRunR_cm_lt",
]
RULE = (
    "correspondence: fdd.SDOF_bellandMS vs Efdd.sdofBell with np.linalg.svd wrapped and its recorded output handed to the "
    "model (band limits, MAC mask pattern exact; bell values 1e-12; MAC within 1e-9 of MAClim skipped); the post-FFT part of "
    "fdd.EFDD_mpe vs Efdd.normCorr/postFft/slope/lamOf/xiOf/fnOf with np.fft.ifft wrapped (pass-through on SDOF bells, or "
    "replaced by synthetic decays / noise so that the real post-processing runs on arbitrary sequences): peak indices exact, "
    "time axis, decrements, slope (closed form vs curve_fit, 1e-7), lam, xi, fn at 1e-12, IndexError branch. oracle (from the "
    "property text): analytic SDOF bells over the stated domain through EFDD_mpe and through EFDD/FSDD classes: fn 2.5 %, "
    "xi 15 %, MAC 0.999, invariance under a positive factor 1e-9. distinct = (path, method, nxseg, channels, source kind). "
    "depth extension (Props/C07Bell): correspondence also on exactly rank-structured spectra (orthonormal complex shapes, cm 1..2) "
    "and of np.fft.ifft as called by EFDD_mpe vs Efdd.ifftRe (n = 5 nf, norm='ortho', sampled lags, 1e-12 of the largest sample); "
    "oracle stream on the real SDOF_bellandMS with Sy = sum_m s_m conj(phi_m) phi_m^T, SVD by the real SD_svalsvec: selected "
    "lines == lines of the band where the reference mode is among the cm largest weights (lines where its weight ties with "
    "another within 1e-6 of the line's largest are skipped), values == s_ref (EFDD) / |c|^2 s_ref (FSDD, real shapes) within "
    "1e-10 of the line's largest weight, bell(c Sy) == c bell(Sy), bell unchanged under an orthogonal change of channel basis. "
    "depth round (Props/C07All): the whole of fdd.EFDD_mpe (1-2 selected frequencies, both methods, all methodSy branches, cm 1..2) vs the composed "
    "model Efdd.efddMpe, with every np.linalg.svd / np.sqrt / np.log / curve_fit call recorded and handed to the model as the library routines "
    "(svd looked up by its ARGUMENT, exact match with Sy[:, :, k]; sqrt/log by nearest recorded argument, the model's own arguments compared with "
    "the recorded ones at 1e-9; the inverse FFT is the model's explicit transform): first-stage lines and shapes, Phi, np.where(SDOFbell), fitted "
    "extremum indices exact; delta equal, lam 1e-13, xi 1e-12, fd 1e-12, fn 1e-11; the arguments of the inner calls (FDD_mpe DF=DF1, "
    "SDOF_bellandMS dt/sel/phi_FDD/method/cm/MAClim/DF=DF2, ifft n=5nf ortho, curve_fit x=arange(npmax)); exception class on malformed requests. "
    "depth round 2 (Props/C07Rect): stream fdd.EFDD_mpe[rect] - Sy of shape (nr, nc, nf) (nr 3..5 > nc 2..4 as EFDD_MS hands it over; also square and 1 < nr < nc) "
    "vs Efdd.efddMpeR: FSDD on nr != nc -> ValueError(not aligned), nr < nc -> ValueError(could not broadcast input array), cm = nr + 1 -> IndexError (class AND "
    "message kind compared), cm = nc + 1 <= nr returns; npmax in {1, 5, 20} (npmax = 1: fn NaN == model none); first stage called with values (nc, nc, nf) and "
    "vectors (nr, nr, nf), Phi of nr components, SDOFms (nf, nr) of the recorded SDOF_bellandMS call vs Efdd.sdofMs at 1e-12 with the same zero pattern"
)
EXTRA_TRUSTED = [
    "np.linalg.svd, np.fft.ifft (linear), np.log, np.sqrt, scipy curve_fit (closed form Σkδ/Σk² compared on every case)",
    "the accuracy tolerances 2.5 % / 15 % / MAC 0.999 are validated by search on the real code, not proved",
    "C07Bell: the SVD enters as recorded (stored vector = non-zero multiple of a mode's shape, stored value = square root of its weight); "
    "that LAPACK returns this for a structured spectrum away from ties is validated by the structured-spectrum oracle",
    "C07All.C07_scale_all: contracts of the library routines as hypotheses (ScaleContract: svd(c A) = (U, c S), sqrt(c s) = r sqrt(s), r^2 = c; "
    "inverse FFT homogeneous for positive factors - proved for the modelled transform); jointly satisfiable (example over the reals); "
    "the floating-point routines honour them to rounding only (oracle scale-variance-* at 1e-9)",
]
ASSUMPTIONS = [
    "exact ties between correlation samples and exact zeros in the normalised correlation are outside the compared domain",
    "oracle domain as in the property: fn/fs in [0.04,0.25], xi in [2,5] %, >=4 lines per half-power bandwidth, >=30 periods in the half record, DF2 in [4,8] bandwidths, DF1 = max(2 lines, one bandwidth)",
    "structured-spectrum oracle: FSDD values are asserted for real mode shapes only (the domain of C07); for complex shapes the code's "
    "phi^H Sy phi pairs without conjugation (C07_bell_structured_coded, C07_fsdd_complex_shape_witness) - deviations are counted, not reported",
    "composed stream: cases with a correlation sample within 1e-13 of zero in the half record, or a bell of fewer than 3 lines (undamped periodic "
    "correlation, extrema tie to rounding) are skipped and counted; Efdd.efddMpe returns 'outside-model' for a NaN first-stage shape / zero correlation",
    "rectangular model Efdd.efddMpeR: nr = 0, nc = 0 and nr = 1 < nc (numpy broadcasts the single singular value over the whole nc x nc block) return 'outside-model' and are not generated",
]


def _fdd():
    from pyoma2.functions import fdd

    return fdd


# ----------------------------------------------------------------------------- correspondence helpers
def _sdof_sy(g, nch, nf, fs, fnr, xi, floor=1e-6, second=None):
    nx = 2 * (nf - 1)
    freq = np.arange(nf) * fs / nx
    w = 2 * np.pi * freq
    wn = 2 * np.pi * fnr * fs
    S = 1 / ((wn**2 - w**2) ** 2 + (2 * xi * wn * w) ** 2)
    phi = g.standard_normal(nch)
    if g.random() < 0.2:
        # a node of the mode at one sensor (exactly zero component), all other sensors moving in phase
        phi = np.abs(phi) + 0.1
        phi[int(g.integers(0, nch))] = 0.0
        if nch == 2 or g.random() < 0.5:
            phi = -phi
    Sy = np.einsum("i,j,f->ijf", phi, phi, S).astype(complex)
    if second is not None:  # a second mode close by: non-trivial MAC mask
        f2, x2 = second
        w2 = 2 * np.pi * f2 * fs
        S2 = 1 / ((w2**2 - w**2) ** 2 + (2 * x2 * w2 * w) ** 2)
        p2 = g.standard_normal(nch) + 1j * g.standard_normal(nch) * 0.3
        Sy = Sy + np.einsum("i,j,f->ijf", p2.conj(), p2, S2) * (S.max() / S2.max()) * g.uniform(0.2, 1.5)
    Sy = Sy + floor * np.abs(Sy).max() * np.eye(nch)[:, :, None]
    return freq, Sy, phi


# ----------------------------------------------------------------------------- structured spectra (Props/C07Bell)
def _struct_spectrum(g, rng, nch, M, nf, cplx):
    """orthonormal shapes (columns) and non-negative line weights s[m, l] (random or bell-like, with exact zeros)"""
    A = g.standard_normal((nch, nch)) + (1j * g.standard_normal((nch, nch)) if cplx else 0.0)
    shapes = np.linalg.qr(A)[0][:, :M]
    amp = 10.0 ** rng.uniform(-10, 10)
    if rng.random() < 0.5:
        s = g.uniform(0, 1, (M, nf)) ** rng.choice([1, 2, 4])
    else:
        k = np.arange(nf)
        s = np.array([rng.uniform(0.2, 1) / (1 + ((k - rng.uniform(0, nf)) / rng.uniform(1, nf / 3)) ** 2) ** 2 for _ in range(M)])
    s = amp * s
    s[g.random((M, nf)) < 0.08] = 0.0
    return shapes, s


def _struct_sy(shapes, s):
    """Sy(l) = sum_m s_m(l) conj(phi_m) phi_m^T  (the conj(X)*Y convention of SD_est: the stored singular vector is phi_m)"""
    return np.einsum("mf,im,jm->ijf", s, shapes.conj(), shapes)


def _bell_case(ctx, struct=False):
    fdd = _fdd()
    rng = ctx.rng
    g = ctx.nprng()
    nch = rng.randint(2, 4)
    nf = rng.randint(16, 48)
    fs = rng.choice([10.0, 100.0, 37.5])
    fnr = rng.uniform(0.1, 0.4)
    freq, Sy, phi = _sdof_sy(g, nch, nf, fs, fnr, rng.uniform(0.02, 0.1), second=(fnr + rng.uniform(-0.06, 0.06), rng.uniform(0.02, 0.1)))
    dt = 1 / fs
    method = rng.choice(["FSDD", "EFDD", "EFDD", "other"])
    cm = rng.choice([1, 1, 2])
    MAClim = rng.choice([0.85, rng.uniform(0.3, 0.99)])
    sel = fnr * fs * rng.uniform(0.95, 1.05)
    DF = rng.uniform(0.03, 0.2) * fs
    if struct:  # exactly rank-structured spectrum: orthonormal complex shapes, non-negative weights
        nch = rng.randint(2, 5)
        shapes, sw = _struct_spectrum(g, rng, nch, rng.randint(2, nch), nf, rng.random() < 0.7)
        Sy = _struct_sy(shapes, sw)
        DF = rng.uniform(0.05, 0.5) * fs
    k0 = int(np.argmin(np.abs(freq - sel)))
    u = np.linalg.svd(Sy[:, :, k0])[0][:, 0].conj()
    phi_FDD = u / u[np.argmax(np.abs(u))]
    if struct:
        phi_FDD = shapes[:, rng.randrange(shapes.shape[1])] * complex(rng.uniform(0.3, 2), rng.uniform(-1, 1))
    real_svd = np.linalg.svd
    rec = []

    def spy(a, *args, **kw):
        out = real_svd(a, *args, **kw)
        rec.append((np.array(out[0]), np.array(out[1])))
        return out

    np.linalg.svd = spy
    try:
        bell, ms = fdd.SDOF_bellandMS(Sy, dt, sel, phi_FDD, method, cm, MAClim, DF)
    finally:
        np.linalg.svd = real_svd
    sq = [np.sqrt(S) for (_, S) in rec]
    out = ctx.model(
        "sdof_bell",
        method=method, nch=nch, cm=cm, nf=nf, dt=R(dt),
        Sy=[[[Cx(Sy[i, j, l]) for l in range(nf)] for j in range(nch)] for i in range(nch)],
        Sval=[[R(sq[l][c]) for l in range(nf)] for c in range(cm)],
        Svec=[[[Cx(np.conj(rec[l][0][i, c])) for l in range(nf)] for i in range(nch)] for c in range(cm)],
        phi=[Cx(z) for z in phi_FDD], sel=R(sel), DF=R(DF), MAClim=R(MAClim),
    )
    macs = [fl(v) for row in out["mac"] for v in row if v is not None]
    if any(abs(m - MAClim) < 1e-9 for m in macs):
        ctx.skipped += 1
        return
    mb = np.array([cfl(z) for z in out["bell"]])
    mask_model = np.array(out["mask"], bool)  # [cm][nf]
    # implementation's mask: rows of SDOFms that are non-zero (sum over close modes)
    mask_impl = np.any(ms != 0, axis=1)
    sc = max(np.abs(bell).max(), 1e-300)
    ok = (
        bell.shape == mb.shape
        and np.array_equal(bell != 0, mb != 0)
        and np.abs(bell - mb).max() <= 1e-12 * sc
        and (method == "other" or np.array_equal(mask_impl, mask_model.any(axis=0)))
    )
    if method == "other":  # neither branch taken: bell and shapes stay zero
        ok = ok and not mb.any() and not mask_impl.any()
    ctx.corr(
        "fdd.SDOF_bellandMS", bool(ok),
        {"method": method, "nch": nch, "nf": nf, "cm": cm, "MAClim": MAClim, "sel": sel, "DF": DF, "dt": dt, "structured": struct},
        {"lo": out["lo"], "hi": out["hi"], "mask": mask_model.astype(int).tolist()},
        {"support": np.nonzero(bell)[0].tolist(), "mask": mask_impl.astype(int).tolist()},
        (method, nch, cm, int(mask_model.sum()) > 0, int(mask_model.sum()) < (out["hi"] - out["lo"]) * cm, struct),
    )
    ctx.count(f"bell_{method}" + ("_structured" if struct else ""))
    ctx.count("bell_mask_lines", int(mask_model.sum()))
    ctx.count("bell_band_lines", max(0, out["hi"] - out["lo"]) * cm)


def _synthetic_corr(ctx, n, kind):
    """a sequence of length n to be returned in place of the inverse FFT"""
    g = ctx.nprng()
    rng = ctx.rng
    t = np.arange(n)
    if kind == "decay":
        per = rng.uniform(6, 25)
        xi = rng.uniform(0.005, 0.08)
        x = np.exp(-xi * 2 * np.pi * t / per) * np.cos(2 * np.pi * t / per + rng.uniform(-0.3, 0.3))
        x = x + rng.choice([0, 1e-4, 1e-2]) * g.standard_normal(n)
    elif kind == "beat":
        p1, p2 = rng.uniform(6, 20), rng.uniform(6, 20)
        x = np.exp(-0.002 * t) * (np.cos(2 * np.pi * t / p1) + rng.uniform(0.2, 0.9) * np.cos(2 * np.pi * t / p2 + 1.0))
    else:  # smoothed noise: irregular crossings
        w = rng.randint(2, 6)
        x = np.convolve(g.standard_normal(n + w), np.ones(w) / w, mode="valid")[:n]
    if kind in ("decay", "beat") and rng.random() < 0.5:
        # an earlier sample on the flank of a larger lobe that differs from a later extremum's value by 3e-7 relative only
        # (any sampled decay has such near-coincidences sooner or later): the extremum is still the sample EQUAL to its value
        h = n // 2
        ext = [j for j in range(2, h - 1) if (x[j] - x[j - 1]) * (x[j + 1] - x[j]) < 0]
        for j in ext[2:8]:
            v = x[j]
            cand = [i for i in range(1, j - 2) if (x[i - 1] - v) * (x[i + 1] - v) < 0 and i not in ext and i - 1 not in ext and i + 1 not in ext]
            if cand:
                x[cand[0]] = v * (1.0 + 3e-7)
                ctx.count("post_near_coincident_sample")
                break
    x = x * rng.choice([1.0, 3.7, 1e-6, -2.0 if kind == "noise" else 1.0])
    return x.astype(complex) + 1j * g.standard_normal(n) * 0.1  # imaginary part is discarded by the code


def _post_case(ctx, k):
    fdd = _fdd()
    rng = ctx.rng
    g = ctx.nprng()
    nch = rng.randint(2, 3)
    kind = rng.choice(["ifft", "ifft", "decay", "decay", "beat", "noise"])
    nf = rng.choice([65, 129, 257]) if kind == "ifft" else rng.randint(40, 160)
    fs = rng.choice([20.0, 100.0, 512.0])
    dt = 1 / fs
    fnr = rng.uniform(0.12, 0.3)
    xi = rng.uniform(0.01, 0.05)
    freq, Sy, phi = _sdof_sy(g, nch, nf, fs, fnr, xi, floor=1e-8)
    method = rng.choice(["FSDD", "EFDD"])
    msy = rng.choice(["per", "cor", "paer"])
    sppk = rng.choice([3, 3, 0, 1, 5])
    npmax = rng.choice([20, 20, 2, 5, 9]) if kind != "noise" else rng.choice([2, 3, 6])
    if rng.random() < 0.1:
        npmax = 200  # IndexError branch
    real_ifft = np.fft.ifft
    real_cf = fdd.curve_fit
    rec = {}

    def ifft_spy(a, *args, **kw):
        out = real_ifft(a, *args, **kw)
        rec["ifft_call"] = (np.array(a), args, dict(kw), np.array(out))
        if kind != "ifft":
            out = _synthetic_corr(ctx, len(out), kind)
        rec["corr"] = np.array(out.real)
        return out

    def cf_spy(f, x, y, *args, **kw):
        out = real_cf(f, x, y, *args, **kw)
        rec["cf"] = (np.array(x), np.array(y), float(out[0][0]))
        return out

    np.fft.ifft = ifft_spy
    fdd.curve_fit = cf_spy
    err = None
    try:
        Fn, Xi, Phi, PP = fdd.EFDD_mpe(
            Sy, freq, dt, [fnr * fs], msy, method=method, DF1=max(2 * fs / (2 * (nf - 1)), 2 * xi * fnr * fs),
            DF2=rng.uniform(3, 8) * 2 * xi * fnr * fs + 3 * fs / (2 * (nf - 1)), sppk=sppk, npmax=npmax,
        )
    except (IndexError, ValueError) as e:
        err = type(e).__name__
    finally:
        np.fft.ifft = real_ifft
        fdd.curve_fit = real_cf
    if "corr" not in rec:
        ctx.skipped += 1
        return
    corr = rec["corr"]
    n = len(corr)
    inp = {"kind": kind, "nf": nf, "dt": dt, "sppk": sppk, "npmax": npmax, "methodSy": msy, "method": method, "corr": corr.tolist()}
    key = (kind, msy, sppk, npmax, err is None)
    if np.any(corr == 0) or not np.all(np.isfinite(corr)) or corr[np.argmax(corr)] == 0:
        ctx.skipped += 1
        return
    # (0) the inverse transform as called by the code vs Efdd.ifftRe (zero-padding to 5 nf, norm="ortho", real part)
    if k % 3 == 0 or ctx.thorough:
        a_in, args_in, kw_in, out_in = rec["ifft_call"]
        nI = 5 * nf
        ts = sorted({0, 1, 2, nI // 2 - 1, nI // 2, nI - 1} | {rng.randrange(nI) for _ in range(6)})
        tw = np.exp(2j * np.pi * np.arange(nI) / nI)
        mv = ctx.model("efdd_ifft", nf=nf, bell=[Cx(z) for z in a_in], tw=[Cx(z) for z in tw], rs=R(1 / np.sqrt(nI)), ts=ts)
        vals = np.array([fl(v) for v in mv["vals"]])
        ok_i = (
            args_in == () and kw_in == {"n": nI, "axis": 0, "norm": "ortho"} and a_in.shape == (nf,) and out_in.shape == (nI,)
            and np.abs(vals - out_in.real[ts]).max() <= 1e-12 * max(np.abs(out_in.real).max(), 1e-300)
        )
        ctx.corr("EFDD_mpe[ifft]", bool(ok_i), {"nf": nf, "kw": {k_: str(v_) for k_, v_ in kw_in.items()}, "ts": ts},
                 vals.tolist(), out_in.real[ts].tolist(), (nf, int(np.count_nonzero(a_in)) > 0))
        ctx.count("ifft_bell_nonzero_lines", int(np.count_nonzero(a_in)))
    # (a) normalisation
    nc = ctx.model("norm_corr", corr=Rvec(corr))
    x_code = corr[: n // 2] / corr[np.argmax(corr)]
    xm = np.array([fl(v) for v in nc["x"]])
    ok_a = nc["argmax"] == int(np.argmax(corr)) and xm.shape == x_code.shape and np.all(np.abs(xm - x_code) <= 4e-16 * np.abs(x_code))
    if err is None:
        ok_a = ok_a and np.array_equal(PP[0][5], x_code)
    ctx.corr("EFDD_mpe[normalise]", bool(ok_a), {k_: inp[k_] for k_ in ("kind", "nf")}, None, None, key)
    # (b) extrema / indices / time axis / decrements on the code's own normalised correlation
    post = ctx.model("efdd_post", nf=nf, x=Rvec(x_code), dt=R(dt), sppk=sppk, npmax=npmax)
    if err is not None or "error" in post:
        ok = err is not None and "error" in post and post["error"].startswith(err)
        ctx.corr("EFDD_mpe[post-FFT]", bool(ok), inp, post.get("error"), err, key)
        ctx.count("post_error_branch")
        return
    pp = PP[0]
    time_code, idx_code, lam_code, delta_code = pp[1], np.asarray(pp[6]), float(np.ravel(pp[7])[0]), np.asarray(pp[8])
    tm = ctx.model("efdd_time", nf=nf, dt=R(dt))
    ok = tm["n"] == len(time_code) and abs(fl(tm["step"]) - (time_code[1] - time_code[0])) <= 1e-12 * time_code[1]
    ok = ok and post["fit_idx"] == idx_code.tolist()
    ratios = np.array([fl(v) for v in post["ratios"]])
    delta_model = np.log(ratios)
    ok = ok and delta_model.shape == delta_code.shape and np.all(np.abs(delta_model - delta_code) <= 1e-12 * (1 + np.abs(delta_code)))
    # fitted values are the correlation samples at the fitted indices (index recovery consistent)
    ok = ok and [fl(v) for v in post["fit_vals"]] == [float(x_code[i]) for i in post["fit_idx"]] if _distinct(x_code) else ok
    Td_code = np.diff(time_code[idx_code]) * 2
    Tdm = np.array([fl(v) for v in post["Td"]])
    ok = ok and Tdm.shape == Td_code.shape and np.all(np.abs(Tdm - Td_code) <= 1e-12 * np.abs(time_code[-1]))
    fd_model = fl(post["fd"])
    # (c) fit: closed-form slope on the code's own decrements vs curve_fit; lam, xi, fn
    xdat, ydat, m_cf = rec["cf"]
    log001 = float(np.log(0.01))
    fit0 = ctx.model("efdd_fit", delta=Rvec(ydat), method_sy=msy, nf=nf, log001=R(log001))
    lam_m = fl(fit0["lam"])
    ok_slope = abs(fl(fit0["slope"]) - m_cf) <= 1e-7 * max(abs(m_cf), 1e-12) and np.array_equal(xdat, np.arange(npmax))
    ok_lam = abs(lam_m - lam_code) <= 2e-7 * max(abs(lam_code), abs(m_cf), 1e-12)
    # xi and fn from the code's own lam (so that only formula and rounding are compared)
    s1 = float(np.sqrt(4 * np.pi**2 + lam_code**2))
    xi_f = lam_code / s1
    s2 = float(np.sqrt(1 - xi_f**2))
    fit = ctx.model("efdd_xifn", lam=R(lam_code), pi=R(math.pi), sqrt1=R(s1), fd=(None if math.isnan(fd_model) else R(fd_model)), sqrt2=R(s2))
    xi_code, fn_code = float(np.ravel(Xi)[0]), float(np.ravel(Fn)[0])
    ok_x = abs(fl(fit["xi"]) - xi_code) <= 1e-12 * abs(xi_code) and abs(fl(fit["arg1"]) - (4 * np.pi**2 + lam_code**2)) <= 1e-12 * s1**2
    ok_f = (math.isnan(fn_code) and math.isnan(fl(fit["fn"]))) or abs(fl(fit["fn"]) - fn_code) <= 1e-11 * abs(fn_code)
    ctx.corr(
        "EFDD_mpe[post-FFT]", bool(ok and ok_slope and ok_lam and ok_x and ok_f), inp,
        {"fit_idx": post["fit_idx"], "slope": fl(fit0["slope"]), "lam": lam_m, "xi": fl(fit["xi"]), "fn": fl(fit["fn"]),
         "flags": [bool(ok), bool(ok_slope), bool(ok_lam), bool(ok_x), bool(ok_f)]},
        {"fit_idx": idx_code.tolist(), "slope": m_cf, "lam": lam_code, "xi": xi_code, "fn": fn_code}, key,
    )
    ctx.count(f"post_{kind}")
    ctx.count(f"post_methodSy_{msy}")
    ctx.count("post_crossings", len(post["zc"]))
    if k < 2:
        ctx.sample({"kind": kind, "nf": nf, "sppk": sppk, "npmax": npmax, "fit_idx_head": post["fit_idx"][:6], "lam": lam_code, "xi": xi_code})


def _distinct(x):
    return len(np.unique(x)) == len(x)


# ----------------------------------------------------------------------------- the whole of EFDD_mpe vs Efdd.efddMpe (Model/EfddAll.lean)
class _Spies:
    """records every call EFDD_mpe makes to np.linalg.svd / np.sqrt / np.log / np.fft.ifft / curve_fit / FDD_mpe / SDOF_bellandMS
    (all pass through unchanged)"""

    def __init__(self, fdd):
        self.fdd = fdd
        self.svd, self.sqrt, self.log, self.ifft, self.fit, self.fdd_calls, self.bell_calls = [], [], [], [], [], [], []

    def __enter__(self):
        fdd = self.fdd
        self.saved = (np.linalg.svd, np.sqrt, np.log, np.fft.ifft, fdd.curve_fit, fdd.FDD_mpe, fdd.SDOF_bellandMS)
        r_svd, r_sqrt, r_log, r_ifft, r_cf, r_fdd, r_bell = self.saved

        def svd(a, *args, **kw):
            out = r_svd(a, *args, **kw)
            self.svd.append((np.array(a), args, dict(kw), np.array(out[0]), np.array(out[1]), np.array(out[2])))
            return out

        def sqrt(x, *args, **kw):
            out = r_sqrt(x, *args, **kw)
            if not args and not kw and np.size(x) <= 64 and np.isrealobj(x):
                self.sqrt += list(zip(np.ravel(np.asarray(x, float)).tolist(), np.ravel(np.asarray(out, float)).tolist()))
            return out

        def log(x, *args, **kw):
            out = r_log(x, *args, **kw)
            if not args and not kw and np.size(x) <= 64 and np.isrealobj(x):
                self.log += list(zip(np.ravel(np.asarray(x, float)).tolist(), np.ravel(np.asarray(out, float)).tolist()))
            return out

        def ifft(a, *args, **kw):
            out = r_ifft(a, *args, **kw)
            self.ifft.append((np.array(a), args, dict(kw), np.array(out)))
            return out

        def cf(f, x, y, *args, **kw):
            out = r_cf(f, x, y, *args, **kw)
            self.fit.append((np.array(x), np.array(y, float), float(out[0][0]), args, dict(kw)))
            return out

        def fdd_mpe(*args, **kw):
            out = r_fdd(*args, **kw)
            self.fdd_calls.append((args, dict(kw), out))
            return out

        def bell(*args, **kw):
            out = r_bell(*args, **kw)
            self.bell_calls.append((args, dict(kw), out))
            return out

        np.linalg.svd, np.sqrt, np.log, np.fft.ifft, fdd.curve_fit, fdd.FDD_mpe, fdd.SDOF_bellandMS = svd, sqrt, log, ifft, cf, fdd_mpe, bell
        return self

    def __exit__(self, *exc):
        fdd = self.fdd
        np.linalg.svd, np.sqrt, np.log, np.fft.ifft, fdd.curve_fit, fdd.FDD_mpe, fdd.SDOF_bellandMS = self.saved
        return False


def _svd_table(calls):
    """recorded np.linalg.svd calls as {A, U, S} (one entry per distinct argument; a repeated argument must have given the same output)"""
    tab, seen, consistent = [], {}, True
    for a, args, kw, U, S, Vh in calls:
        key = a.tobytes() + bytes(str(a.shape), "ascii")
        if key in seen:
            U0, S0 = seen[key]
            consistent = consistent and np.array_equal(U0, U) and np.array_equal(S0, S)
            continue
        seen[key] = (U, S)
        tab.append({"A": [[Cx(z) for z in row] for row in a], "U": [[Cx(z) for z in row] for row in U], "S": Rvec(S)})
    return tab, consistent


def _pairs(lst):
    out, seen = [], set()
    for a, v in lst:
        if a in seen or not (math.isfinite(a) and math.isfinite(v)):
            continue
        seen.add(a)
        out.append([R(a), R(v)])
    return out


def _all_case(ctx, k, malformed=False):
    fdd = _fdd()
    rng = ctx.rng
    g = ctx.nprng()
    nch = rng.randint(2, 4)
    nf = rng.choice([33, 49, 65])
    fs = rng.choice([20.0, 100.0, 512.0, 37.5])
    dt = 1 / fs
    nmodes = rng.choice([1, 1, 2])
    fnrs = [rng.uniform(0.14, 0.2), rng.uniform(0.26, 0.34)][:nmodes]
    if nmodes == 1 and rng.random() < 0.5:
        fnrs = [rng.uniform(0.14, 0.32)]
    xis = [rng.uniform(0.012, 0.04) for _ in fnrs]
    freq, Sy, _ = _sdof_sy(g, nch, nf, fs, fnrs[0], xis[0], floor=10.0 ** rng.uniform(-9, -5),
                           second=(fnrs[1], xis[1]) if nmodes == 2 else None)
    if rng.random() < 0.3:
        Sy = Sy * 10.0 ** rng.uniform(-12, 12)
    method = rng.choice(["FSDD", "EFDD"])
    msy = rng.choice(["per", "cor", "per", "paer"])
    sppk = rng.choice([3, 3, 0, 1, 4])
    npmax = rng.choice([2, 3, 5, 8])
    cm = rng.choice([1, 1, 1, 2])
    MAClim = rng.choice([0.85, rng.uniform(0.5, 0.97)])
    line = fs / (2 * (nf - 1))
    sel = [f * fs * rng.uniform(0.97, 1.03) for f in fnrs]
    if nmodes == 2 and rng.random() < 0.5:
        sel = sel[::-1]  # the caller's order, not sorted
    DF1 = max(2 * line, rng.uniform(1, 3) * 2 * xis[0] * fnrs[0] * fs)
    DF2 = rng.uniform(3, 8) * 2 * max(xis) * max(fnrs) * fs + 3 * line
    kind = "valid"
    if malformed:
        kind = rng.choice(["npmax_large", "DF2_tiny", "DF1_tiny", "npmax_zero", "method_other"])
        if kind == "npmax_large":
            npmax = 150
        elif kind == "DF2_tiny":
            DF2 = line * rng.uniform(0.01, 0.2)
        elif kind == "DF1_tiny":
            DF1 = line * rng.uniform(0.01, 0.2)
        elif kind == "npmax_zero":
            npmax = 0
        else:
            method = "other"
    nI = 5 * nf
    tw = np.exp(2j * np.pi * np.arange(nI) / nI)
    rs = 1 / np.sqrt(nI)
    err = None
    with _Spies(fdd) as sp:
        try:
            Fn, Xi, Phi, PP = fdd.EFDD_mpe(Sy, freq, dt, list(sel), msy, method=method, DF1=DF1, DF2=DF2, cm=cm, MAClim=MAClim, sppk=sppk, npmax=npmax)
        except (IndexError, ValueError) as e:
            err = type(e).__name__
    inp = {"kind": kind, "method": method, "methodSy": msy, "nch": nch, "nf": nf, "dt": dt, "sel": sel, "DF1": DF1, "DF2": DF2, "cm": cm,
           "MAClim": MAClim, "sppk": sppk, "npmax": npmax, "Sy_re": Sy.real.tolist(), "Sy_im": Sy.imag.tolist()}
    key = (kind, method, msy, nmodes, cm, err)
    svd_tab, consistent = _svd_table(sp.svd)
    # zero correlation samples / zero maxima (numpy NaNs) are outside the compared domain
    for a_in, _, _, out_in in sp.ifft:
        h = out_in.real[: len(out_in) // 2]
        if not np.all(np.isfinite(out_in.real)) or np.abs(h).min() <= 1e-13 * np.abs(out_in.real).max():
            ctx.skipped += 1
            ctx.count("all_skipped_zero_sample")
            return
    try:
      out = ctx.model(
        "efdd_mpe_all", method=method, method_sy=msy, nch=nch, nf=nf,
        Sy=[[[Cx(Sy[i, j, l]) for l in range(nf)] for j in range(nch)] for i in range(nch)],
        freq=Rvec(freq), dt=R(dt), sel=Rvec(sel), DF1=R(DF1), DF2=R(DF2), cm=cm, MAClim=R(MAClim), sppk=sppk, npmax=npmax,
        svd=svd_tab, sqrt=_pairs(sp.sqrt), log=_pairs(sp.log), pi=R(math.pi), tw=[Cx(z) for z in tw], rs=R(rs),
        fit=[{"y": Rvec(y), "m": R(m)} for (_, y, m, _, _) in sp.fit if np.all(np.isfinite(y)) and math.isfinite(m)],
      )
    except ModelError as e:  # e.g. the code decomposed another matrix than Sy[:, :, k]
        ctx.corr("fdd.EFDD_mpe[composed]", False, inp, str(e), err or "returned", key)
        return
    if err is not None or "error" in out:
        ok = err is not None and "error" in out and out["error"].startswith(err)
        ctx.corr("fdd.EFDD_mpe[composed]", bool(ok), inp, out.get("error"), err, key)
        ctx.count(f"all_error_{kind}_{err}")
        return
    # a band of one or two lines gives an undamped (periodic) correlation: its extrema tie to rounding (outside the compared domain)
    if any(len(np.ravel(pp_[4])) < 3 for pp_ in PP):
        ctx.skipped += 1
        ctx.count("all_skipped_periodic_correlation")
        return
    flags = {}
    # --- the calls the code made, against the composition the model prescribes
    n_sel = len(sel)
    # (the calls are bound through the callee's signature: positional / keyword spelling, explicitly written defaults and how
    # often a pure routine is evaluated on the same argument are the implementation's business)
    import inspect

    def bound(fn, args, kw):
        ba = inspect.signature(fn).bind(*args, **kw)
        ba.apply_defaults()
        return ba.arguments

    flags["svd_calls"] = consistent and len(svd_tab) <= nf
    fc = sp.fdd_calls
    b0 = bound(sp.saved[5], fc[0][0], fc[0][1]) if len(fc) >= 1 else {}
    flags["first_stage_call"] = len(fc) == 1 and b0.get("DF") == DF1 and list(b0.get("sel_freq", [])) == list(sel)
    first = out["first"]
    Fn1, Phi1 = fc[0][2]
    flags["first_stage"] = (
        isinstance(first, list) and len(first) == n_sel
        and all(fl(m_["fn"]) == float(Fn1[i]) and freq[m_["idx"]] == float(Fn1[i]) for i, m_ in enumerate(first))
        and all(m_["phi"] is not None and np.abs(np.array([cfl(z) for z in m_["phi"]]) - Phi1[:, i]).max() <= 1e-12 for i, m_ in enumerate(first))
    )
    bc = sp.bell_calls
    bb = [bound(sp.saved[6], c[0], c[1]) for c in bc]
    flags["bell_calls"] = len(bc) == n_sel and all(
        b["dt"] == dt and b["sel_fn"] == sel[i] and np.array_equal(b["phi_FDD"], Phi1[:, i])
        and (b["method"], b["cm"], b["MAClim"], b["DF"]) == (method, cm, MAClim, DF2) for i, b in enumerate(bb))
    bi = [bound(sp.saved[3], (c[0],) + tuple(c[1]), c[2]) for c in sp.ifft]
    flags["ifft_calls"] = len(sp.ifft) == n_sel and all(b["n"] == nI and b["axis"] in (0, -1) and b["norm"] == "ortho" and c[0].shape == (nf,) for b, c in zip(bi, sp.ifft))
    flags["fit_calls"] = len(sp.fit) == n_sel and all(np.array_equal(c[0], np.arange(npmax)) for c in sp.fit)
    # --- results
    modes = out["modes"]
    flags["count"] = len(modes) == n_sel and np.shape(Fn) == (n_sel, 1) or np.shape(Fn) == (n_sel,)
    Fn_, Xi_ = np.ravel(Fn), np.ravel(Xi)
    worst = {"xi": 0.0, "fn": 0.0, "ratio": 0.0}
    for i, mo in enumerate(modes[:n_sel]):
        pp = PP[i]
        f = {}
        f["phi"] = np.abs(np.array([cfl(z) for z in mo["phi"]]) - np.asarray(Phi)[:, i]).max() <= 1e-12
        f["idSV"] = mo["idSV"] == np.ravel(pp[4]).tolist()
        f["fit_idx"] = mo["fit_idx"] == np.asarray(pp[6]).tolist()
        # arguments at which the model evaluates log vs the arguments the code passed to np.log
        ratios = np.array([fl(v) for v in mo["ratios"]])
        delta_code = np.asarray(pp[8], float)
        largs = np.array([a for a, _ in sp.log])
        rr = max((np.abs(largs - r).min() / r for r in ratios), default=0.0)
        worst["ratio"] = max(worst["ratio"], float(rr))
        f["log_args"] = rr <= 1e-9
        dm = np.array([fl(v) for v in mo["delta"]])
        f["delta"] = dm.shape == delta_code.shape and np.array_equal(dm, delta_code)
        lam_code = float(np.ravel(pp[7])[0])
        f["lam"] = abs(fl(mo["lam"]) - lam_code) <= 1e-13 * max(abs(lam_code), 1e-300)
        a12 = out["sqrt_args"][i]
        sargs = np.array([a for a, _ in sp.sqrt])
        f["sqrt_args"] = all(np.abs(sargs - fl(a12[k_])).min() <= 1e-12 * abs(fl(a12[k_])) for k_ in ("arg1", "arg2") if not math.isnan(Fn_[i]) or k_ == "arg1")
        ex = abs(fl(mo["xi"]) - Xi_[i]) / abs(Xi_[i])
        f["xi"] = ex <= 1e-12
        time_code, idx_code = pp[1], np.asarray(pp[6])
        if math.isnan(Fn_[i]):
            f["fn"] = mo["fn"] is None
        else:
            ef = abs(fl(mo["fn"]) - Fn_[i]) / abs(Fn_[i])
            f["fn"] = ef <= 1e-11
            worst["fn"] = max(worst["fn"], float(ef))
            fd_code = 1 / np.mean(np.diff(time_code[idx_code]) * 2)
            f["fd"] = abs(fl(mo["fd"]) - fd_code) <= 1e-12 * abs(fd_code)
        worst["xi"] = max(worst["xi"], float(ex))
        flags[f"mode{i}"] = all(bool(v) for v in f.values())
        if not flags[f"mode{i}"]:
            flags[f"mode{i}_detail"] = {k_: bool(v) for k_, v in f.items()}
        ctx.count("all_band_lines_selected", len(mo["idSV"]))
        ctx.count("all_crossings", len(mo["zc"]))
    ok = all(bool(v) for k_, v in flags.items() if not k_.endswith("_detail"))
    ctx.corr(
        "fdd.EFDD_mpe[composed]", bool(ok), inp,
        {"flags": {k_: (v if isinstance(v, dict) else bool(v)) for k_, v in flags.items()}, "fn": [m_["fn"] and fl(m_["fn"]) for m_ in modes], "xi": [fl(m_["xi"]) for m_ in modes],
         "fit_idx": [m_["fit_idx"] for m_ in modes]},
        {"fn": Fn_.tolist(), "xi": Xi_.tolist(), "fit_idx": [np.asarray(PP[i][6]).tolist() for i in range(n_sel)]}, key,
    )
    # the recorded SVDs satisfy the contract the faithfulness / scale theorems assume
    a, _, _, U, S, Vh = sp.svd[rng.randrange(len(sp.svd))]
    sc = max(np.abs(a).max(), 1e-300)
    ctx.contract("svd_unitary_U", np.abs(U.conj().T @ U - np.eye(len(U))).max(), 1e-12, "U^H U = I")
    ctx.contract("svd_unitary_V", np.abs(Vh @ Vh.conj().T - np.eye(len(Vh))).max(), 1e-12, "V^H V = I")
    ctx.contract("svd_decomposition", np.abs((U * S) @ Vh - a).max() / sc, 1e-12, "A = U diag(S) V^H")
    ctx.contract("svd_sorted_nonneg", 0.0 if (np.all(S >= 0) and np.all(np.diff(S) <= 0)) else 1.0, 0.5, "S >= 0, non-increasing")
    ctx.count(f"all_{method}")
    ctx.count(f"all_methodSy_{msy}")
    ctx.count(f"all_modes_{n_sel}")
    for k_, v in worst.items():
        ctx.dist[f"all_worst_{k_}_1e-16"] = max(ctx.dist.get(f"all_worst_{k_}_1e-16", 0), int(v * 1e16))


# ----------------------------------------------------------------------------- EFDD_mpe on a rectangular (half) spectrum vs Efdd.efddMpeR (Model/EfddRect.lean)
_RECT_MSG = {  # model message -> what the real exception's text must contain
    "ValueError: shapes not aligned": "not aligned",
    "ValueError: could not broadcast input array": "could not broadcast input array",
    "ValueError: operands could not be broadcast together": "broadcast",
    "IndexError: index is out of bounds for axis 0": "out of bounds for axis 0",
}


def _rect_case(ctx, k):
    """Sy of shape (nr, nc, nf) as EFDD_MS hands it to EFDD_mpe (all channels x reference channels): kinds half (nr > nc, EFDD),
    half_fsdd (FSDD: ValueError), wide (1 < nr < nc: ValueError in SD_svalsvec), square; cm up to nr + 1; npmax in {1, 5, 20}"""
    fdd = _fdd()
    rng = ctx.rng
    g = ctx.nprng()
    kind = ["half", "half_fsdd", "half", "square", "wide", "half"][k % 6]
    nr = rng.randint(3, 5)
    nc = rng.randint(2, nr - 1)
    method = "EFDD"
    if kind == "half_fsdd":
        method = "FSDD"
    elif kind == "square":
        nc = nr = rng.randint(2, 3)
        method = rng.choice(["FSDD", "EFDD"])
    elif kind == "wide":
        nr, nc = nc, nr
    nf = rng.choice([33, 49, 65])
    npmax = rng.choice([1, 5, 20])
    if npmax == 20:
        nf = 65
    fs = rng.choice([20.0, 100.0, 512.0, 37.5])
    dt = 1 / fs
    fnr = rng.uniform(0.24, 0.34) if npmax == 20 and rng.random() < 0.8 else rng.uniform(0.14, 0.32)
    xi = rng.uniform(0.012, 0.04)
    n = max(nr, nc)
    freq, Sq, _ = _sdof_sy(g, n, nf, fs, fnr, xi, floor=10.0 ** rng.uniform(-9, -5))
    Sy = np.ascontiguousarray(Sq[:nr, :nc, :])  # the first nc channels are the references
    msy = rng.choice(["per", "cor", "paer"])
    sppk = rng.choice([3, 3, 0, 1])
    # close modes: the default, two, one more than the reference block holds (runs: the MAC test fails there), one more than there are channels
    cm = rng.choice([1, 2, nc + 1, nr + 1]) if kind in ("half", "square") else rng.choice([1, 2])
    MAClim = rng.choice([0.85, rng.uniform(0.5, 0.97)])
    line = fs / (2 * (nf - 1))
    sel = [fnr * fs * rng.uniform(0.97, 1.03)]
    DF1 = max(2 * line, rng.uniform(1, 3) * 2 * xi * fnr * fs)
    DF2 = rng.uniform(3, 8) * 2 * xi * fnr * fs + 3 * line
    nI = 5 * nf
    tw = np.exp(2j * np.pi * np.arange(nI) / nI)
    rs = 1 / np.sqrt(nI)
    err = msg = None
    with _Spies(fdd) as sp:
        try:
            Fn, Xi, Phi, PP = fdd.EFDD_mpe(Sy, freq, dt, list(sel), msy, method=method, DF1=DF1, DF2=DF2, cm=cm, MAClim=MAClim, sppk=sppk, npmax=npmax)
        except Exception as e:  # noqa: BLE001 - any exception class is compared with the model's
            err, msg = type(e).__name__, str(e)
    name = "fdd.EFDD_mpe[rect]"
    inp = {"kind": kind, "method": method, "methodSy": msy, "nr": nr, "nc": nc, "nf": nf, "dt": dt, "sel": sel, "DF1": DF1, "DF2": DF2, "cm": cm,
           "MAClim": MAClim, "sppk": sppk, "npmax": npmax, "Sy_re": Sy.real.tolist(), "Sy_im": Sy.imag.tolist()}
    key = (kind, method, nr, nc, min(cm, 3) if cm <= nc else ("nc+" if cm <= nr else "nr+"), npmax, err)
    svd_tab, consistent = _svd_table(sp.svd)
    for a_in, _, _, out_in in sp.ifft:
        h = out_in.real[: len(out_in) // 2]
        if not np.all(np.isfinite(out_in.real)) or np.abs(h).min() <= 1e-13 * np.abs(out_in.real).max():
            ctx.skipped += 1
            ctx.count("rect_skipped_zero_sample")
            return
    if kind == "wide":  # SD_svalsvec raised at the first line: the model needs the decompositions of all lines in its table
        for l_ in range(nf):
            U_, S_, _ = np.linalg.svd(Sy[:, :, l_])
            sp.svd.append((np.array(Sy[:, :, l_]), (), {}, U_, S_, None))
        svd_tab, consistent = _svd_table(sp.svd)
    try:
        out = ctx.model(
            "efdd_mpe_rect", method=method, method_sy=msy, nr=nr, nc=nc, nf=nf,
            Sy=[[[Cx(Sy[i, j, l]) for l in range(nf)] for j in range(nc)] for i in range(nr)],
            freq=Rvec(freq), dt=R(dt), sel=Rvec(sel), DF1=R(DF1), DF2=R(DF2), cm=cm, MAClim=R(MAClim), sppk=sppk, npmax=npmax,
            svd=svd_tab, sqrt=_pairs(sp.sqrt), log=_pairs(sp.log), pi=R(math.pi), tw=[Cx(z) for z in tw], rs=R(rs),
            fit=[{"y": Rvec(y), "m": R(m)} for (_, y, m, _, _) in sp.fit if np.all(np.isfinite(y)) and math.isfinite(m)],
        )
    except ModelError as e:
        ctx.corr(name, False, inp, str(e), err or "returned", key)
        return
    if err is not None or "error" in out:
        me = out.get("error") or ""
        ok = err is not None and me.startswith(err) and (me not in _RECT_MSG or _RECT_MSG[me] in msg)
        ctx.corr(name, bool(ok), inp, out.get("error"), f"{err}: {msg}" if err else "returned", key)
        ctx.count(f"rect_error_{kind}_{method}_{err}")
        return
    if any(len(np.ravel(pp_[4])) < 3 for pp_ in PP):
        ctx.skipped += 1
        ctx.count("rect_skipped_periodic_correlation")
        return
    import inspect

    def bound(fn, args, kw):
        ba = inspect.signature(fn).bind(*args, **kw)
        ba.apply_defaults()
        return ba.arguments

    flags = {}
    flags["svd_calls"] = consistent and len(svd_tab) <= nf and all(c[0].shape == (nr, nc) for c in sp.svd)
    fc = sp.fdd_calls
    b0 = bound(sp.saved[5], fc[0][0], fc[0][1]) if len(fc) >= 1 else {}
    # the first stage gets the WHOLE decomposition: values (nc, nc, nf), vectors (nr, nr, nf)
    flags["first_stage_call"] = (len(fc) == 1 and b0.get("DF") == DF1 and list(b0.get("sel_freq", [])) == list(sel)
                                 and np.shape(b0.get("Sval")) == (nc, nc, nf) and np.shape(b0.get("Svec")) == (nr, nr, nf))
    first = out["first"]
    Fn1, Phi1 = fc[0][2]
    flags["first_stage"] = (
        isinstance(first, list) and len(first) == 1 and np.shape(Phi1) == (nr, 1)
        and all(fl(m_["fn"]) == float(Fn1[i]) and freq[m_["idx"]] == float(Fn1[i]) for i, m_ in enumerate(first))
        and all(m_["phi"] is not None and len(m_["phi"]) == nr and np.abs(np.array([cfl(z) for z in m_["phi"]]) - Phi1[:, i]).max() <= 1e-12 for i, m_ in enumerate(first))
    )
    bc = sp.bell_calls
    bb = [bound(sp.saved[6], c[0], c[1]) for c in bc]
    flags["bell_calls"] = len(bc) == 1 and all(
        b["dt"] == dt and b["sel_fn"] == sel[i] and np.array_equal(b["phi_FDD"], Phi1[:, i]) and np.array_equal(b["Sy"], Sy)
        and (b["method"], b["cm"], b["MAClim"], b["DF"]) == (method, cm, MAClim, DF2) for i, b in enumerate(bb))
    flags["fit_calls"] = len(sp.fit) == 1 and all(np.array_equal(c[0], np.arange(npmax)) for c in sp.fit)
    modes = out["modes"]
    Fn_, Xi_ = np.ravel(Fn), np.ravel(Xi)
    flags["count"] = len(modes) == 1 and np.shape(Phi) == (nr, 1)
    for i, mo in enumerate(modes[:1]):
        pp = PP[i]
        f = {}
        f["phi"] = len(mo["phi"]) == nr and np.abs(np.array([cfl(z) for z in mo["phi"]]) - np.asarray(Phi)[:, i]).max() <= 1e-12
        f["idSV"] = mo["idSV"] == np.ravel(pp[4]).tolist()
        # SDOFms1 (nf, nr): the stored vectors of the lines / close modes that passed the MAC test
        ms_code = np.asarray(bc[i][2][1])
        ms_model = np.array([[cfl(z) for z in row] for row in out["ms"][i]])
        f["SDOFms"] = ms_code.shape == (nf, nr) == ms_model.shape and np.abs(ms_code - ms_model).max() <= 1e-12 \
            and np.array_equal(np.abs(ms_code) > 0, np.abs(ms_model) > 0)
        f["fit_idx"] = mo["fit_idx"] == np.asarray(pp[6]).tolist()
        dm = np.array([fl(v) for v in mo["delta"]])
        delta_code = np.asarray(pp[8], float)
        f["delta"] = dm.shape == delta_code.shape and np.array_equal(dm, delta_code)
        lam_code = float(np.ravel(pp[7])[0])
        f["lam"] = abs(fl(mo["lam"]) - lam_code) <= 1e-13 * max(abs(lam_code), 1e-300)
        f["xi"] = abs(fl(mo["xi"]) - Xi_[i]) <= 1e-12 * abs(Xi_[i])
        if math.isnan(Fn_[i]):  # npmax = 1: np.mean of an empty np.diff
            f["fn"] = mo["fn"] is None and npmax == 1
            ctx.count("rect_fn_nan")
        else:
            f["fn"] = mo["fn"] is not None and abs(fl(mo["fn"]) - Fn_[i]) <= 1e-11 * abs(Fn_[i])
        flags[f"mode{i}"] = all(bool(v) for v in f.values())
        if not flags[f"mode{i}"]:
            flags[f"mode{i}_detail"] = {k_: bool(v) for k_, v in f.items()}
        ctx.count("rect_band_lines_selected", len(mo["idSV"]))
    ok = all(bool(v) for k_, v in flags.items() if not k_.endswith("_detail"))
    ctx.corr(
        name, bool(ok), inp,
        {"flags": {k_: (v if isinstance(v, dict) else bool(v)) for k_, v in flags.items()}, "fn": [m_["fn"] and fl(m_["fn"]) for m_ in modes], "xi": [fl(m_["xi"]) for m_ in modes]},
        {"fn": Fn_.tolist(), "xi": Xi_.tolist()}, key,
    )
    ctx.count(f"rect_ok_{kind}_{method}_cm{'<=nc' if cm <= nc else '>nc'}_npmax{npmax}")
# --- default values as regenerated obligations (Generated/Defaults.lean <- harness/translate_defaults.py; stream defaults[...])
import defaults_stream  # noqa: E402
LEAN_MODULES += ["PyomaVerif.Props.WiringDefaultsC07"]
THEOREMS += ["PV.WiringDefaults.C07_defaults"]


def correspondence(ctx):
    defaults_stream.correspondence(ctx, props=('C07',))
def _floor_case(ctx):
    """depth round 2 (g19, C07_sdof_floor): the property's own spectrum Sy(f) = S(f) phi phi^T + eta I (one mode, real shape,
    full-rank floor).  (1) what LAPACK records is what the theorem assumes: first stored vector a multiple of phi, stored
    value^2 = S |phi|^2 + eta, the other stored vectors orthogonal to phi; (2) the real SDOF_bellandMS AND the model op
    sdof_bell give the closed form of the theorem: EFDD S|phi|^2 + eta on the band, 0 outside; FSDD |c|^2 |phi|^2 times that."""
    fdd = _fdd()
    rng = ctx.rng
    g = ctx.nprng()
    nch = rng.randint(2, 5)
    nf = rng.randint(16, 48)
    fs = rng.choice([10.0, 100.0, 37.5])
    fnr = rng.uniform(0.1, 0.4)
    nx = 2 * (nf - 1)
    freq = np.arange(nf) * fs / nx
    w, wn, xi = 2 * np.pi * freq, 2 * np.pi * fnr * fs, rng.uniform(0.02, 0.1)
    S = 1 / ((wn**2 - w**2) ** 2 + (2 * xi * wn * w) ** 2)
    S = S * 10.0 ** rng.uniform(-6, 6) / S.max()
    phi = g.standard_normal(nch)
    eta = S.max() * 10.0 ** rng.uniform(-8, -2)
    Sy = (np.einsum("i,j,f->ijf", phi, phi, S) + eta * np.eye(nch)[:, :, None]).astype(complex)
    dt = 1 / fs
    method = rng.choice(["FSDD", "EFDD"])
    cm = rng.choice([1, 1, 2])
    MAClim = rng.choice([0.85, rng.uniform(0.0, 0.99)])
    sel = fnr * fs * rng.uniform(0.95, 1.05)
    DF = rng.uniform(0.03, 0.3) * fs
    c = complex(rng.uniform(0.3, 2), rng.choice([0.0, rng.uniform(-1, 1)]))
    phi_FDD = c * phi
    real_svd = np.linalg.svd
    rec = []

    def spy(a, *args, **kw):
        out = real_svd(a, *args, **kw)
        rec.append((np.array(out[0]), np.array(out[1])))
        return out

    np.linalg.svd = spy
    try:
        bell, ms = fdd.SDOF_bellandMS(Sy, dt, sel, phi_FDD, method, cm, MAClim, DF)
    finally:
        np.linalg.svd = real_svd
    n2 = float(phi @ phi)
    top = S * n2 + eta
    # (1) the hypotheses hvec / hval / horth of C07_sdof_floor against the recorded SVD (stored vectors are conj(U))
    hyp = len(rec) == nf
    for l in range(nf if hyp else 0):
        U, sv = rec[l]
        u0 = np.conj(U[:, 0])
        hyp = hyp and abs(abs(np.vdot(phi, u0)) ** 2 / (n2 * np.vdot(u0, u0).real) - 1) <= 1e-9
        hyp = hyp and abs(sv[0] - top[l]) <= 1e-9 * top[l]
        for k in range(1, cm):
            hyp = hyp and abs(np.vdot(phi, np.conj(U[:, k]))) <= 1e-7 * math.sqrt(n2)
    ctx.corr("np.linalg.svd[floor spectrum: dominant pair first, rest orthogonal]", bool(hyp), {"nch": nch, "nf": nf, "cm": cm}, None, None,
             ("floor-svd", nch, cm))
    sq = [np.sqrt(Sv) for (_, Sv) in rec]
    out = ctx.model(
        "sdof_bell",
        method=method, nch=nch, cm=cm, nf=nf, dt=R(dt),
        Sy=[[[Cx(Sy[i, j, l]) for l in range(nf)] for j in range(nch)] for i in range(nch)],
        Sval=[[R(sq[l][k]) for l in range(nf)] for k in range(cm)],
        Svec=[[[Cx(np.conj(rec[l][0][i, k])) for l in range(nf)] for i in range(nch)] for k in range(cm)],
        phi=[Cx(z) for z in phi_FDD], sel=R(sel), DF=R(DF), MAClim=R(MAClim),
    )
    mb = np.array([cfl(z) for z in out["bell"]])
    band = np.zeros(nf, bool)
    band[out["lo"]:out["hi"]] = True
    want = np.where(band, top, 0.0) * (abs(c) ** 2 * n2 if method == "FSDD" else 1.0)
    sc = max(np.abs(want).max(), 1e-300)
    ok = bell.shape == want.shape and np.array_equal(bell != 0, want != 0) and np.abs(bell - want).max() <= 1e-9 * sc \
        and np.abs(mb - want).max() <= 1e-9 * sc and np.array_equal(mb != 0, want != 0)
    ctx.corr("fdd.SDOF_bellandMS[floor spectrum = closed form of C07_sdof_floor]", bool(ok),
             {"method": method, "nch": nch, "nf": nf, "cm": cm, "MAClim": MAClim, "sel": sel, "DF": DF, "dt": dt, "eta_rel": eta / S.max()},
             {"lo": out["lo"], "hi": out["hi"]}, {"support": np.nonzero(bell)[0].tolist()}, ("floor", method, nch, cm, bool(band.any())))
    ctx.count(f"bell_floor_{method}")


def correspondence(ctx):
    for _ in range(ctx.n(12, 120)):
        _floor_case(ctx)
    for _ in range(ctx.n(30, 300)):
        _bell_case(ctx)
    for _ in range(ctx.n(16, 160)):
        _bell_case(ctx, struct=True)
    for k in range(ctx.n(60, 600)):
        _post_case(ctx, k)
    for k in range(ctx.n(10, 120)):
        _all_case(ctx, k, malformed=(k % 5 == 4))
    for k in range(ctx.n(12, 120)):
        _rect_case(ctx, k)


# ----------------------------------------------------------------------------- oracle
def _domain_case(rng):
    while True:
        # "any fs": round and non-round sampling periods, Hz to tens of kHz
        fs = float(rng.choice([20.0, 50.0, 100.0, 1000.0, 1200.0, 2048.0, 3000.0, 4096.0, 44100.0, rng.uniform(5, 2000), 10.0 ** rng.uniform(-1, 5)]))
        # (odd segment lengths are legal: the one-sided grid then ends below fs/2)
        nxseg = int(rng.choice([1024, 2048, 4096, 8192, 1025, 2047, 4095]))
        xi = rng.uniform(0.02, 0.05)
        lo = max(0.04, 2 / (xi * nxseg), 60 / nxseg)  # >= 4 lines per bandwidth, >= 30 periods in the half record
        if lo >= 0.25:
            continue
        fnr = rng.uniform(lo, 0.25)
        if rng.random() < 0.25 and round(fnr * fs) >= 1 and lo <= round(fnr * fs) / fs <= 0.25:
            # a natural frequency that is a whole number of Hz: the caller then writes it as an integer (see _selform)
            fnr = round(fnr * fs) / fs
        return fs, nxseg, xi, fnr, rng.randint(2, 6), rng.uniform(4.0, 8.0)


def _selform(fn):
    """the selected frequency as a user writes it: a whole number of Hz as a Python int (or an integer array), else a float"""
    if float(fn).is_integer():
        return [int(fn)] if int(fn) % 2 else np.array([int(fn)])
    return [fn]


def _analytic(fs, nxseg, xi, fnr, phi, level=None):
    """level None: the spectrum in its natural units; else: peak spectral density scaled to `level`
    (the claim is for the analytic spectral density up to any positive constant)"""
    fn = fnr * fs
    nf = nxseg // 2 + 1
    freq = np.arange(nf) * fs / nxseg
    w = 2 * np.pi * freq
    wn = 2 * np.pi * fn
    S = 1 / ((wn**2 - w**2) ** 2 + (2 * xi * wn * w) ** 2)
    if level is not None:
        S = S / np.max(S) * level
    Sy = np.einsum("i,j,f->ijf", phi, phi, S) + 1e-9 * np.max(S) * np.eye(len(phi))[:, :, None]
    return freq, Sy.astype(complex), fn


def _mac(x, y):
    return abs(np.vdot(x, y)) ** 2 / (np.vdot(x, x).real * np.vdot(y, y).real)


def _run_fn(fdd, freq, Sy, fs, fn, xi, nxseg, method, kbw):
    bw = 2 * xi * fn
    Fn, Xi, Phi, _ = fdd.EFDD_mpe(Sy, freq, 1 / fs, _selform(fn), "per", method=method, DF1=max(2 * fs / nxseg, bw), DF2=kbw * bw)
    return float(np.ravel(Fn)[0]), float(np.ravel(Xi)[0]), np.asarray(Phi)[:, 0]


_RUN_CLASS = {"n": 0, "reused": 0}


def _run_class(fdd, freq, Sy, fs, fn, xi, nxseg, method, kbw):
    """through the setup and the algorithm class (sampling frequency handed over by SingleSetup.add_algorithms);
    the exact spectral result is installed as if run() had produced it"""
    from pyoma2.algorithms import EFDD, FSDD
    from pyoma2.setup import SingleSetup

    cls = {"EFDD": EFDD, "FSDD": FSDD}[method]
    # every other call re-uses the algorithm object of an earlier case (attached to a NEW setup with another sampling
    # frequency and channel count): nothing of the earlier attachment may survive
    _RUN_CLASS["n"] += 1
    alg = _RUN_CLASS.get((method, nxseg)) if _RUN_CLASS["n"] % 2 == 0 else None
    if alg is None:
        alg = cls(name="a", nxseg=nxseg, method_SD="per")
        _RUN_CLASS[(method, nxseg)] = alg
        _RUN_CLASS["last"] = "fresh object"
    else:
        _RUN_CLASS["reused"] += 1
        _RUN_CLASS["last"] = f"object re-used; previously attached to a setup with fs={alg.fs}, then mpe"
    ss = SingleSetup(np.zeros((8, Sy.shape[0])), fs)
    ss.add_algorithms(alg)
    Sval, Svec = fdd.SD_svalsvec(Sy)
    alg.result = alg.ResultCls(freq=freq, Sy=Sy, S_val=Sval, S_vec=Svec)
    bw = 2 * xi * fn
    sel = _selform(fn)
    ss.mpe("a", sel_freq=sel, DF1=max(2 * fs / nxseg, bw), DF2=kbw * bw)
    if list(sel) != [fn]:
        raise AssertionError("mpe modified the caller's sel_freq")
    return float(alg.result.Fn[0]), float(alg.result.Xi[0]), np.asarray(alg.result.Phi)[:, 0]


def _judge(ctx, path, fs, nxseg, xi, fnr, nch, kbw, phi, runner, do_scale, level=None):
    fdd = _fdd()
    freq, Sy, fn = _analytic(fs, nxseg, xi, fnr, phi, level)
    inp = {"path": path, "level": level, "fs": fs, "nxseg": nxseg, "xi": xi, "fn": fn, "fn_over_fs": fnr, "phi": phi.tolist(), "DF2_bandwidths": kbw,
           "spectrum": "S(f)=1/((wn^2-w^2)^2+(2 xi wn w)^2) * phi phi^T + 1e-9 max(S) I, f_k = k fs/nxseg"}
    res = {}
    for method in ("EFDD", "FSDD"):
        try:
            res[method] = runner(fdd, freq, Sy, fs, fn, xi, nxseg, method, kbw)
        except Exception as e:  # the property promises estimates on this domain
            res[method] = e
        ctx.oracle_cases += 1
        ctx.nontrivial.add(("oracle", path, method, nxseg, nch))
        if runner is _run_class:
            inp[f"algorithm_object_{method}"] = _RUN_CLASS.get("last")
    bad = {"exc": [], "fn": [], "xi": [], "mac": []}
    obs = {}
    for method, r in res.items():
        if isinstance(r, Exception):
            bad["exc"].append(method)
            obs[method] = f"{type(r).__name__}: {r}"
            continue
        f, x, P = r
        ef, ex, mc = abs(f - fn) / fn, abs(x - xi) / xi, _mac(P, phi)
        obs[method] = {"fn": f, "xi": x, "fn_err": ef, "xi_err": ex, "mac": float(mc)}
        ctx.dist["worst_fn_err_ppm"] = max(ctx.dist.get("worst_fn_err_ppm", 0), int(ef * 1e6))
        ctx.dist["worst_xi_err_ppm"] = max(ctx.dist.get("worst_xi_err_ppm", 0), int(ex * 1e6))
        if not ef <= 0.025:
            bad["fn"].append(method)
        if not ex <= 0.15:
            bad["xi"].append(method)
        if not mc >= 0.999:
            bad["mac"].append(method)
    exp = {"fn": fn, "xi": xi, "tolerances": "fn 2.5 %, xi 15 %, MAC 0.999"}
    for what, methods in bad.items():
        if methods:
            who = "both" if len(methods) == 2 else methods[0] + "-only"
            msg = "exception instead of an estimate" if what == "exc" else f"{what} outside tolerance"
            ctx.violation(f"{what}-error-{who}", f"{path}: {msg} for {methods} (fn/fs={fnr:.4f}, xi={xi:.4f}, nxseg={nxseg}, fs={fs:g})",
                          inp, observed=obs, expected=exp)
    # invariance under a positive factor
    if do_scale:
        c = 10.0 ** ctx.rng.uniform(-12, 12)
        for method, r in res.items():
            if isinstance(r, Exception):
                continue
            try:
                f2, x2, P2 = runner(fdd, freq, c * Sy, fs, fn, xi, nxseg, method, kbw)
            except Exception as e:
                ctx.violation(f"scale-exception-{method}", f"{path}: exception after scaling by {c}: {e}", inp | {"c": c})
                continue
            ctx.oracle_cases += 1
            if not (abs(f2 - r[0]) <= 1e-9 * abs(r[0]) and abs(x2 - r[1]) <= 1e-9 * abs(r[1])):
                ctx.violation(f"scale-variance-{method}", f"{path}: estimates change when the spectrum is multiplied by {c}", inp | {"c": c},
                              observed={"fn": [r[0], f2], "xi": [r[1], x2]})


# ----------------------------------------------------------------------------- oracle: bell on structured spectra (C07Bell)
_TIE = 1e-6  # lines where the reference weight is within this fraction of the line's largest weight of another weight are skipped
_VTOL = 1e-10  # value tolerance, relative to the line's largest weight (LAPACK: absolute error eps*sigma_max per singular value)


def _struct_band(nf, dt, sel, DF):
    """nearest grid line (f_k = k/(2 nf dt)) to sel-DF and sel+DF; None when a limit is within 1e-6 line of a midpoint"""
    df = 1 / dt / (2 * nf)
    out = []
    for x in (sel - DF, sel + DF):
        q = x / df
        if -0.5 < q < nf - 0.5 and abs((q % 1) - 0.5) < 1e-6:
            return None
        out.append(int(min(max(math.floor(q + 0.5), 0), nf - 1)))
    return tuple(out)


def _struct_expect(sw, r, cm, nch, band):
    """(selected, tie) per line: the reference mode is among the cm largest of the nch weights (absent directions weigh 0)"""
    M, nf = sw.shape
    full = np.vstack([sw, np.zeros((nch - M, nf))])
    others = np.delete(full, r, axis=0)
    top = full.max(axis=0)
    tie = np.any(np.abs(others - sw[r]) <= _TIE * top, axis=0)
    sel = (others > sw[r]).sum(axis=0) < cm
    inb = np.zeros(nf, bool)
    inb[band[0] : band[1]] = True
    return sel & inb, tie & inb, top


def _struct_inp(shapes, sw, r, cm, dt, sel, DF, MAClim, c, extra=None):
    d = {"stream": "structured", "shapes_re": shapes.real.tolist(), "shapes_im": shapes.imag.tolist(), "s": sw.tolist(), "r": r, "cm": cm,
         "dt": dt, "sel": sel, "DF": DF, "MAClim": MAClim, "c": [c.real, c.imag],
         "spectrum": "Sy[:,:,l] = sum_m s[m][l] conj(phi_m) phi_m^T, phi_m = columns of shapes (orthonormal); phi_FDD = c * phi_r"}
    d.update(extra or {})
    return d


def _struct_eval(fdd, inp):
    """runs the real SDOF_bellandMS on one structured case; returns a list of (sig, what, observed, expected) and statistics"""
    shapes = np.array(inp["shapes_re"]) + 1j * np.array(inp["shapes_im"])
    cplx = bool(np.any(shapes.imag != 0))
    sw = np.array(inp["s"], float)
    r, cm, dt, sel, DF, MAClim = inp["r"], inp["cm"], inp["dt"], inp["sel"], inp["DF"], inp["MAClim"]
    c = complex(*inp["c"])
    nch, M = shapes.shape
    nf = sw.shape[1]
    fails, stats = [], {}
    band = _struct_band(nf, dt, sel, DF)
    if band is None or band[1] <= band[0]:  # empty band: SDOF_bellandMS raises (shape mismatch of empty arrays) - outside the claim
        return None, stats
    exp_sel, tie, top = _struct_expect(sw, r, cm, nch, band)
    chk = ~tie
    Sy = _struct_sy(shapes, sw)
    phi = c * shapes[:, r]
    c2 = abs(c) ** 2
    stats["lines_selected"] = int((exp_sel & chk).sum())
    stats["lines_rejected_in_band"] = int((~exp_sel & chk).sum()) - (nf - max(0, band[1] - band[0]))
    stats["lines_tie_skipped"] = int(tie.sum())
    base = {}
    for method in ("EFDD", "FSDD"):
        bell, ms = fdd.SDOF_bellandMS(Sy, dt, sel, phi, method, cm, MAClim, DF)
        base[method] = bell
        # selected lines: rows of SDOFms that are non-zero (a selected line whose weight is exactly 0 carries a zero bell value);
        # a line that is not selected must carry an exactly zero bell value
        got = np.any(ms != 0, axis=1)
        if bell.shape != (nf,) or np.any(got[chk] != exp_sel[chk]) or np.any(bell[chk & ~exp_sel] != 0):
            bad = np.nonzero(chk & ((got != exp_sel) | (~exp_sel & (bell != 0))))[0].tolist()
            fails.append((f"bell-structured-support-{method}", f"selected lines differ from the lines where the reference mode is among the {cm} largest weights (lines {bad[:8]})",
                          {"selected": np.nonzero(got & chk)[0].tolist()}, {"selected": np.nonzero(exp_sel & chk)[0].tolist(), "band": list(band)}))
            continue
        on = exp_sel & chk
        want = sw[r] * (1.0 if method == "EFDD" else c2)
        scale_ = top * (1.0 if method == "EFDD" else c2)
        dev = np.abs(bell - want)[on] / scale_[on] if on.any() else np.zeros(0)
        if method == "EFDD" or not cplx:
            stats[f"worst_value_dev_{method}"] = float(dev.max()) if dev.size else 0.0
            if dev.size and not dev.max() <= _VTOL:
                l = int(np.nonzero(on)[0][np.argmax(dev)])
                fails.append((f"bell-structured-value-{method}", f"bell value on a selected line is not the reference mode's weight (line {l})",
                              {"bell": [bell[l].real, bell[l].imag]}, {"value": float(want[l]), "tol_rel_to_largest_weight": _VTOL}))
        else:  # complex shapes, FSDD: the code pairs without conjugation (outside the domain of C07) - counted only
            stats["fsdd_complex_lines"] = int(on.sum())
            stats["fsdd_complex_lines_off_by_1pct"] = int((dev > 0.01).sum())
    # (2a) positive factor: bell(f*Sy) = f*bell(Sy), same support
    f = inp.get("factor")
    if f is not None:
        for method in ("EFDD", "FSDD"):
            b2, _ = fdd.SDOF_bellandMS(f * Sy, dt, sel, phi, method, cm, MAClim, DF)
            sc = top * f * (1.0 if method == "EFDD" else c2)
            ok = np.all(b2[chk & ~exp_sel] == 0) and np.all(np.abs(b2 - f * base[method])[chk] <= _VTOL * sc[chk])
            if not ok:
                fails.append((f"bell-structured-scale-{method}", f"bell(f*Sy) is not f*bell(Sy) for f = {f:g}", None, None))
    # (2b) change of channel basis y -> Q y: Sy -> conj(Q) Sy Q^T, phi -> Q phi
    if "Q_re" in inp:
        Q = np.array(inp["Q_re"]) + 1j * np.array(inp["Q_im"])
        Qc = bool(np.any(Q.imag != 0))
        SyQ = np.einsum("ik,klf,jl->ijf", Q.conj(), Sy, Q)
        for method in ("EFDD", "FSDD"):
            if method == "FSDD" and Qc:
                continue  # FSDD's unconjugated pairing is invariant for real Q only (C07_bell_unitary, remark)
            b2, _ = fdd.SDOF_bellandMS(SyQ, dt, sel, Q @ phi, method, cm, MAClim, DF)
            sc = top * (1.0 if method == "EFDD" else c2)
            ok = np.all(b2[chk & ~exp_sel] == 0) and np.all(np.abs(b2 - base[method])[chk] <= _VTOL * sc[chk])
            if not ok:
                fails.append((f"bell-structured-basis-{method}", "bell changes under a unitary change of the channel basis", None, None))
    return fails, stats


def _struct_oracle(ctx, n):
    fdd = _fdd()
    rng = ctx.rng
    for it in range(n):
        g = ctx.nprng()
        nch = rng.randint(2, 7)
        M = rng.randint(1, nch)
        nf = rng.randint(8, 72)
        cplx = rng.random() < 0.6
        shapes, sw = _struct_spectrum(g, rng, nch, M, nf, cplx)
        r = rng.randrange(M)
        cm = rng.choice([1, 1, 1, 2, 2, 3]) if nch > 2 else rng.choice([1, 1, 2])
        cm = min(cm, nch)
        dt = 10.0 ** rng.uniform(-4, 1)
        fny = 1 / dt / 2
        sel = rng.uniform(0.05, 0.95) * fny
        DF = rng.choice([rng.uniform(0.02, 0.4), rng.uniform(0.4, 1.2)]) * fny
        MAClim = rng.choice([0.85, rng.uniform(0.05, 0.95)])
        c = complex(rng.uniform(0.3, 3) * rng.choice([1, -1]), rng.uniform(-2, 2))
        extra = {}
        if it % 2 == 0:
            extra["factor"] = 10.0 ** rng.uniform(-8, 8)
        if it % 3 == 0:
            realQ = rng.random() < 0.6
            B = g.standard_normal((nch, nch)) + (0.0 if realQ else 1j * g.standard_normal((nch, nch)))
            Q = np.linalg.qr(B)[0][g.permutation(nch)]
            extra["Q_re"], extra["Q_im"] = Q.real.tolist(), (Q.imag if not realQ else np.zeros((nch, nch))).tolist()
        inp = _struct_inp(shapes, sw, r, cm, dt, sel, DF, MAClim, c, extra)
        fails, stats = _struct_eval(fdd, inp)
        if fails is None:
            ctx.skipped += 1
            continue
        ctx.oracle_cases += 1
        ctx.nontrivial.add(("oracle-structured", nch, M, cm, cplx, stats["lines_selected"] > 0, stats["lines_rejected_in_band"] > 0))
        for sig, what, obs, exp in fails:
            ctx.violation(sig, f"structured spectrum ({nch} channels, {M} modes, {nf} lines, cm={cm}, {'complex' if cplx else 'real'} shapes): {what}",
                          inp, observed=obs, expected=exp)
        ctx.count("struct_cases_complex_shapes" if cplx else "struct_cases_real_shapes")
        ctx.count(f"struct_cm_{cm}")
        for k_ in ("lines_selected", "lines_rejected_in_band", "lines_tie_skipped", "fsdd_complex_lines", "fsdd_complex_lines_off_by_1pct"):
            ctx.count("struct_" + k_, stats.get(k_, 0))
        for k_ in ("worst_value_dev_EFDD", "worst_value_dev_FSDD"):
            ctx.dist["struct_" + k_ + "_1e-16"] = max(ctx.dist.get("struct_" + k_ + "_1e-16", 0), int(stats.get(k_, 0.0) * 1e16))


def oracle(ctx, scale):
    rng = ctx.rng
    _struct_oracle(ctx, ctx.n(150, 3000) * scale)
    for it in range(ctx.n(48, 500) * scale):
        fs, nxseg, xi, fnr, nch, kbw = _domain_case(rng)
        if not ctx.thorough and nxseg == 8192 and rng.random() < 0.5:
            nxseg = 2048
            if max(0.04, 2 / (xi * nxseg), 60 / nxseg) > fnr:
                continue
        g = ctx.nprng()
        phi = g.standard_normal(nch)
        if rng.random() < 0.2:  # a node of the mode at one sensor (exactly zero component), the others in phase
            phi = np.abs(phi) + 0.1
            phi[rng.randrange(nch)] = 0.0
            ctx.count("oracle_shape_with_node")
        phi = phi / phi[np.argmax(np.abs(phi))]
        via_class = it % 2 == 1
        # absolute level of the spectral matrix: natural units, or peak density anywhere in 1e-22 .. 1e12
        level = 10.0 ** rng.uniform(-22, 12) if rng.random() < 0.7 else None
        _judge(ctx, "EFDD/FSDD.mpe" if via_class else "EFDD_mpe", fs, nxseg, xi, fnr, nch, kbw, phi,
               _run_class if via_class else _run_fn, do_scale=(it % 3 == 0), level=level)
        ctx.count("oracle_level_below_1e-14" if (level is not None and level < 1e-14) else "oracle_level_other")
        ctx.count("oracle_fs_kHz" if fs >= 1000 else "oracle_fs_below_kHz")
        ctx.count(f"oracle_nxseg_{nxseg}")
        ctx.count("oracle_via_class" if via_class else "oracle_via_function")
        if float(fnr * fs).is_integer():
            ctx.count("oracle_sel_freq_written_as_integer")
    ctx.dist["oracle_class_object_reused"] = _RUN_CLASS["reused"]


def replay(rec):
    fdd = _fdd()
    v = rec["violation"]
    inp = v["input"]
    print("replaying", v["sig"], "-", v["what"])
    if inp.get("stream") == "structured":
        fails, stats = _struct_eval(fdd, inp)
        print("statistics:", stats)
        for sig, what, obs, exp in fails or []:
            print("FAILS", sig, "-", what, "| observed", obs, "| expected", exp)
        if not fails:
            print("all structured-spectrum checks hold on this input")
        return 1 if fails else 0
    phi = np.array(inp["phi"])
    fs, nxseg, xi = inp["fs"], inp["nxseg"], inp["xi"]
    freq, Sy, fn = _analytic(fs, nxseg, xi, inp["fn_over_fs"], phi, inp.get("level"))
    runner = _run_class if inp["path"].startswith("EFDD/FSDD") else _run_fn
    rc = 0
    for method in ("EFDD", "FSDD"):
        try:
            f, x, P = runner(fdd, freq, Sy, fs, fn, xi, nxseg, method, inp["DF2_bandwidths"])
        except Exception as e:
            print(method, "exception", type(e).__name__, e)
            rc = 1
            continue
        ef, ex, mc = abs(f - fn) / fn, abs(x - xi) / xi, _mac(P, phi)
        print(f"{method}: fn {f:.6g} (true {fn:.6g}, err {ef:.3%})  xi {x:.5f} (true {xi:.5f}, err {ex:.2%})  MAC {mc:.6f}")
        if ef > 0.025 or ex > 0.15 or mc < 0.999:
            rc = 1
        if "c" in inp:
            f2, x2, _ = runner(fdd, freq, Sy * inp["c"], fs, fn, xi, nxseg, method, inp["DF2_bandwidths"])
            same = abs(f2 - f) <= 1e-9 * abs(f) and abs(x2 - x) <= 1e-9 * abs(x)
            print(f"{method}: spectrum x {inp['c']:.3g}: fn {f2:.6g} xi {x2:.5f} -> {'unchanged' if same else 'CHANGED'}")
            if not same:
                rc = 1
    return rc
