"""C19 — geometry tables are validated, aligned to sensor order and mapped faithfully
(gen.check_on_geo1/2, flatten_sns_names, dfphi_map_func; GeometryMixin.def_geo1/def_geo2;
Geo1MplPlotter/Geo2MplPlotter.plot_mode)."""
import copy
import math
from fractions import Fraction

import numpy as np
import pandas as pd

from common import R
from common import all_pre_build as pre_build  # noqa: F401  (regenerates Generated/GeoWiring.lean — translate_geo.py — from the tested tree)

LEAN_MODULES = ["PyomaVerif.Props.C19", "PyomaVerif.Props.C19Geo2", "PyomaVerif.Props.C19Plot", "PyomaVerif.Mutants.C19",
                "PyomaVerif.Mutants.C19Geo2", "PyomaVerif.Props.WiringGeo", "PyomaVerif.Props.C19Lines", "PyomaVerif.Mutants.C19Lines",
                "PyomaVerif.Props.C19Why", "PyomaVerif.Props.C19Merge"]
THEOREMS = [
    "PV.C19.C19_flatten_single",
    "PV.C19.C19_flatten_multi",
    "PV.C19.C19_roving_mem",
    "PV.C19.C19_flatten_table_eq_lists",
    "PV.C19.C19_flatten_needs_ref",
    "PV.C19.C19_reindex_row",
    "PV.C19.C19_lookup_perm",
    "PV.C19.C19_reindex_perm",
    "PV.C19.C19_align_geo1",
    "PV.C19.C19_align_perm_geo1",
    "PV.C19.C19_sub1_cells",
    "PV.C19.C19_zero_based_geo1",
    "PV.C19.C19_accept_iff_geo1",
    "PV.C19.C19_reject_iff_geo1",
    "PV.C19.C19_optional_geo1",
    "PV.C19.C19_zero_based_geo2",
    "PV.C19.C19_cstr_align",
    "PV.C19.C19_optional_geo2",
    "PV.C19.C19_accept_iff_geo2",
    "PV.C19.C19_reject_iff_geo2",
    "PV.C19.C19_map_cells",
    "PV.C19.C19_map_zero",
    "PV.C19.C19_dict_last",
    "PV.C19.C19_map_sensor",
    "PV.C19.C19_map_cstr",
    "PV.C19.C19_cellNum0_row",
    "PV.C19.C19_map_unknown",
    "PV.C19.C19_displace",
    "PV.C19.C19_defgeo1_forms",
    "PV.C19.C19_names_geo2",
    "PV.C19.C19_defgeo2_forms",
    "PV.C19.C19_defgeo2_names",
    "PV.C19.C19_defgeo1_names",
    "PV.C19.C19_defgeo2_reject_iff",
    "PV.C19.C19_defgeo1_reject_iff",
    "PV.C19.C19_default_sign",
    "PV.C19.C19_optional_geo2_sign",
    "PV.C19.C19_displace_default_sign",
    "PV.C19.C19_mapCell_not_nan",
    "PV.C19.C19_map_zero_checked",
    "PV.C19.C19_map_sensor_checked",
    "PV.C19.C19_map_cstr_aligned",
    "PV.C19.C19_map_cstr_labelwise",
    "PV.C19.C19_dot_scale",
    "PV.C19.C19_plot_mode2",
    "PV.C19.C19_plot_geo2_pipeline",
    "PV.C19.C19_plot_mode2_sensor",
    "PV.C19.C19_plot_mode2_cstr",
    "PV.C19.C19_plot_mode2_zero",
    "PV.C19.C19_plot_mode1_arrow",
    "PV.C19.C19_plot_geo1_aligned",
    "PV.C19M.prefix_geo2_optional_fails",
    "PV.C19M.prefix_defgeo1_forms_fails",
    "PV.C19M.firstdict_map_fails",
    "PV.C19M.noshift_zero_based_fails",
    "PV.C19M.shift_bgnodes_fails",
    "PV.C19M.positional_align_fails",
    "PV.C19M.refcount_flatten_fails",
    "PV.C19M.lazy_reorder_cstr_fails",
    "PV.C19M.zeros_default_sign_fails",
    "PV.C19M.sign_on_coord_displace_fails",
    "PV.C19M.scale_twice_fails",
    "PV.C19M.table_order_arrows_fails",
    # geometry defined from a file (clause 1): obligations over the source + the executed model of the entry points
    "PV.C19.C19_by_file_wiring",
    "PV.C19.C19_by_file_reads_path",
    "PV.C19.C19_by_file_same_as_def_geo",
    "PV.C19.C19_by_file_other_raises",
    "PV.C19.C19_def_geo_wiring",
    "PV.C19.C19_by_file_covers_result",
    "PV.C19.C19_by_file_geo1",
    "PV.C19.C19_by_file_geo1_ok_iff",
    "PV.C19.C19_by_file_reject_iff_geo1",
    "PV.C19.C19_by_file_zero_based_geo1",
    "PV.C19.astypeFloat_numeric",
    "PV.C19.C19_by_file_geo2",
    "PV.C19.C19_by_file_geo2_error",
    "PV.C19.C19_by_file_zero_based_geo2",
    "PV.C19.C19_by_file_other",
    # the zero-based line arrays consumed by plt_lines (clause 9)
    "PV.C19.pyIndex_shift",
    "PV.C19.segOf_shift",
    "PV.C19.C19_plot_lines_one_based",
    "PV.C19.C19_plot_lines_past_end",
    "PV.C19.C19_plot_geo2_lines",
    "PV.C19.C19_plot_geo2_lines_one_based",
    "PV.C19.C19_plot_geo1_lines",
    "PV.C19.C19_plot_geo1_lines_one_based",
    "PV.C19M.oldpoints_lines_fails",
    "PV.C19M.noshift_lines_fails",
    # which check fires (clauses 10/11), and the C02 / C19 models of flatten_sns_names are one
    "PV.C19.firstWhy_of_first",
    "PV.C19.geo1Pre_eq_firstWhy",
    "PV.C19.geo2Pre_eq_firstWhy",
    "PV.C19.C19_geo1_first_why",
    "PV.C19.C19_geo2_first_why",
    "PV.C19.C19_missing_first",
    "PV.C19.C19_flatten_eq_merge",
]
RULE = (
    "correspondence: generated sheet dictionaries (1..12 sensor names, single setup or 2..4 setups with 1..3 references, "
    "row-permuted coordinate/direction tables with extra rows, optional sheets present / absent / empty, INFO sheet, every "
    "single-fault corruption and pairs of corruptions (which check fires: message of the first failing check), all name forms) sent as exact rationals / strings to the Lean model and to check_on_geo1/2, "
    "flatten_sns_names, def_geo1/def_geo2 (valid sets in every argument form AND the same single faults, incl. DataFrame "
    "directions with renamed / re-ordered row labels and mapping / sign frames labelled in another order), dfphi_map_func: same exception class or the same tables cell by cell "
    "(numbers exactly; mapped values and displacements at 1e-12); the display pipeline def_geo1 + plot_mode_geo1 / def_geo2 + "
    "plot_mode_geo2_mpl against the model's defPlotGeo1 / defPlotGeo2: start and end point of every arrow, every displaced point, as "
    "held by the Agg artists (every argument form, scaleF in {0, 0.5, 1, 2, 5, 10, -1.5}, colour fixed or 'cmap', background present "
    "or absent, shapes of another length and single table faults; 1e-11), and the LINE artists of both plots (sensor lines between the "
    "sensor positions / the displaced points, background lines between background nodes; an index past the last point, a 0 and a NaN "
    "in the one-based sheet) against defPlotGeo1Lines / defPlotGeo2Lines. oracle: the statement with plain dict look-ups on the "
    "generating spec, plus Agg artists of plot_mode_geo1 / plot_mode_geo2_mpl; every function is also used twice on the "
    "caller's own (un-copied) tables; def_geo1_by_file / def_geo2_by_file / _def_geo_by_file with read_excel_file replaced by a "
    "function that hands over the generated sheet dictionary (valid sets, every single fault, INFO sheet, another geo_type) "
    "against the model's defGeoByFile, field by field, plus the path and keywords the reader received; geometry 1 and 2 are defined from shared tables on two setup objects, and the caller's "
    "tables / arrays are monitored for modification. distinct = distinct (function, shape/"
    "corruption/form) classes"
)
EXTRA_TRUSTED = [
    "pandas DataFrame.reindex / replace / fillna / astype / sub and numpy matmul behave as modelled (tied by the correspondence)",
    "matplotlib 3-D artists store the coordinates they are given (_offsets3d, _verts3d)",
]
ASSUMPTIONS = [
    "sheets are DataFrames as read_excel(index_col=0) delivers them (openpyxl absent: frames are built directly)",
    "sensor / constraint names are strings other than '0', '0.0', 'interp', 'nan' that do not parse as floats; numeric mapping cells are 0",
    "column labels of one table are distinct; coordinate row labels are distinct in the permutation theorems",
    "display: coordinate / direction / sign cells are numbers or NaN; the mode shape has one real component per sensor (a shape of another length: both lengths >= 2, numpy broadcasting of a length-1 axis is not modelled)",
    "label-wise constraint combination (C19_map_cstr_labelwise): sensor names distinct, constraint sheet rectangular with distinct row and column labels",
]

NAN = float("nan")


# ----------------------------------------------------------------------------- plain tables
def T(index, cols, rows, iname="label"):
    return {"index": list(index), "cols": list(cols), "rows": [list(r) for r in rows], "iname": iname}


def isnan(v):
    return v is None or (isinstance(v, (float, np.floating)) and math.isnan(v))


def mk_df(t):
    """plain table -> DataFrame as read_excel(index_col=0) would deliver it (None = pd.DataFrame())"""
    if t is None or t == "empty":
        return pd.DataFrame()
    if not t["cols"] and not t["index"]:
        return pd.DataFrame()
    return pd.DataFrame(
        [list(r) for r in t["rows"]] if t["rows"] else None,
        index=pd.Index(t["index"], name=t.get("iname", "label")),
        columns=list(t["cols"]),
    )


def mk_names_table(rows):
    w = max([len(r) for r in rows] + [0])
    return pd.DataFrame(
        [list(r) + [NAN] * (w - len(r)) for r in rows],
        index=pd.Index(range(1, len(rows) + 1), name="setup No."),
        columns=[f"chann. {i + 1}" for i in range(w)],
    )


# ----------------------------------------------------------------------------- codec
def cell_json(v):
    if isnan(v) or v is pd.NA:
        return None
    if isinstance(v, str):
        return ["s", str(v)]
    if isinstance(v, (bool, np.bool_)):
        raise TypeError("bool cell")
    if isinstance(v, (int, np.integer)):
        return ["n", R(int(v))]
    return ["n", R(float(v))]


def tbl_json(df):
    arr = df.to_numpy(dtype=object) if df.shape[1] else np.empty((df.shape[0], 0), dtype=object)
    return {
        "index": [str(i) for i in df.index],
        "cols": [str(c) for c in df.columns],
        "cells": [[cell_json(v) for v in row] for row in arr],
    }


def arr_json(a):
    """ndarray / list argument as the table pd.DataFrame(arr)"""
    return tbl_json(pd.DataFrame(np.asarray(a)))


def names_json(x):
    if isinstance(x, pd.DataFrame):
        return {"form": "table", "rows": [[None if isnan(v) else str(v) for v in row] for row in x.to_numpy(dtype=object)]}
    if isinstance(x, list) and all(isinstance(e, str) for e in x):
        return {"form": "list", "v": list(x)}
    if isinstance(x, list) and all(isinstance(e, list) and all(isinstance(s, str) for s in e) for e in x):
        return {"form": "listlist", "v": [list(e) for e in x]}
    if isinstance(x, np.ndarray) and x.ndim == 1:
        return {"form": "array", "v": [str(s) for s in x.tolist()]}
    return {"form": "other"}


def fd_json(fd):
    nm = fd.get("sensors names")
    return {
        "names": None if "sensors names" not in fd else names_json(nm),
        "tbls": [[k, tbl_json(v)] for k, v in fd.items() if k != "sensors names"],
    }


def same_cell(m, v, tol=0.0):
    if m is None:
        return isnan(v)
    if m[0] == "s":
        return isinstance(v, str) and v == m[1]
    if isinstance(v, str) or isnan(v):
        return False
    fv = Fraction(int(v)) if isinstance(v, (int, np.integer)) else Fraction(float(v))
    fm = Fraction(m[1])
    if tol == 0.0:
        return fv == fm
    return abs(fv - fm) <= tol * max(1, abs(fm))


def same_rows(mrows, real):
    """model [[cell]] (or None) against ndarray / DataFrame / None"""
    if mrows is None or real is None:
        return mrows is None and real is None
    arr = real.to_numpy(dtype=object) if isinstance(real, pd.DataFrame) else np.asarray(real, dtype=object)
    if arr.ndim != 2 or len(mrows) != arr.shape[0]:
        return False
    for mr, rr in zip(mrows, arr):
        if len(mr) != len(rr) or not all(same_cell(a, b) for a, b in zip(mr, rr)):
            return False
    return True


def same_tbl(mt, real, check_index=True):
    if mt is None or real is None:
        return mt is None and real is None
    if not isinstance(real, pd.DataFrame):
        return False
    if [str(c) for c in real.columns] != mt["cols"]:
        return False
    if check_index and [str(i) for i in real.index] != mt["index"]:
        return False
    return same_rows(mt["cells"], real)


def same_names(mn, real):
    if not isinstance(real, list) or len(mn) != len(real):
        return False
    return all((isnan(b) if a is None else (isinstance(b, str) and a == b)) for a, b in zip(mn, real))


LAST = {"msg": ""}

# reason of the model's ValueError -> fragment of the message of the code (ties the ORDER of the checks)
WHY_MSG = {
    "missingRequired": "At least the sheets",
    "unknownSheet": "is not a valid name",
    "coordCols": "coordinates' should have 3 columns",
    "shapeMismatch": "must have the same shape",
    "signShape": "'sensors sign' must have the same shape",
    "bgNodesCols": "'BG nodes' should have 3 columns",
    "bgLinesCols": "'BG lines' should have 2 columns",
    "bgSurfCols": "'BG surfaces' should have 3 columns",
    "indexMismatch": "must have the same index",
    "namesForm": "The input must of type",
    "nameAbsent": "All sensors names must be present",
    "dupIndex": "duplicate labels",
    "cstrCols": "constraints columns names must correspond",
    "cstrRows": "constraints names (index column) must be the same",
    "mapUnknown": "could not convert string to float",
    "invalidType": "Invalid geometry type",
}


def run(f, *a, **k):
    """(True, result) or (False, exception class name); the message is kept in LAST"""
    try:
        return True, f(*a, **k)
    except Exception as e:  # noqa: BLE001
        LAST["msg"] = str(e)
        return False, type(e).__name__


def err_match(model, res):
    """model error against the raised exception: same class and, for a ValueError of the
    code's own checks, the message of the same check"""
    ok, v = res
    if ok or v != model["err"]:
        return False
    frag = WHY_MSG.get(model.get("why"))
    if frag is not None and frag not in LAST["msg"]:
        return False
    if model.get("why") == "signShape" or frag is None:
        return True
    return not (model.get("why") == "shapeMismatch" and "'sensors sign'" in LAST["msg"])


def summarize(res):
    ok, v = res
    if not ok:
        return {"err": v}
    return {"ok": [x.to_dict("split") if isinstance(x, pd.DataFrame) else x for x in (v if isinstance(v, tuple) else [v])]}


def cmp_geo1(model, res):
    ok, v = res
    if "err" in model:
        return err_match(model, res)
    if not ok:
        return False
    m = model["ok"]
    names, coord, sdir, lines, bgn, bgl, bgs = v
    return (
        same_names(m["names"], names)
        and isinstance(coord, pd.DataFrame)
        and [str(c) for c in coord.columns] == m["coordCols"]
        and same_names(m["names"], [i for i in coord.index])
        and same_rows(m["coord"], coord)
        and same_rows(m["dir"], sdir)
        and same_rows(m["lines"], lines)
        and same_rows(m["bgNodes"], bgn)
        and same_rows(m["bgLines"], bgl)
        and same_rows(m["bgSurf"], bgs)
    )


def cmp_geo2(model, res):
    ok, v = res
    if "err" in model:
        return err_match(model, res)
    if not ok:
        return False
    m = model["ok"]
    names, pts, smap, cstr, sign, lines, surf, bgn, bgl, bgs = v
    return (
        same_names(m["names"], names)
        and same_tbl(m["pts"], pts)
        and same_tbl(m["map"], smap)
        and same_tbl(m["cstr"], cstr)
        and same_tbl(m["sign"], sign)
        and same_rows(m["lines"], lines)
        and same_rows(m["surf"], surf)
        and same_rows(m["bgNodes"], bgn)
        and same_rows(m["bgLines"], bgl)
        and same_rows(m["bgSurf"], bgs)
    )


# ----------------------------------------------------------------------------- generators (plain python)
def _tok(rng, used, prefix=None):
    while True:
        p = prefix or rng.choice(["ch", "s", "acc", "N", "p_", "Ch."])
        s = f"{p}{rng.randint(1, 99)}" + rng.choice(["", "", "_x", "_1", "b"])
        if prefix is None and rng.random() < 0.2:
            # labels are arbitrary strings: numeric-looking, with blanks, non-ASCII, differing only in case or by a prefix,
            # with characters that are special in patterns
            k = rng.randint(1, 12)
            s = rng.choice([f"{k}", f"0{k}", f"ch {k}", f"Δ{k}", f"CH{k}", f"ch{k}", f"s{k}", f"s{k}0", f"a.b{k}", f"a+b{k}", f"({k})", f"x[{k}]", f"{k}.0", f"n|{k}", f"ä{k}ß"])
        if s not in used and not s.startswith("REF"):
            used.add(s)
            return s


def _num(rng):
    c = rng.random()
    if c < 0.5:
        return rng.randint(-5, 20)
    if c < 0.8:
        return rng.randint(-20, 40) / 4
    return round(rng.uniform(-10, 10), 2)


def gen_names(rng, multi=None):
    """-> (rows, ref_ind, flat).  flat is written from the statement: REF1..k then each
    setup's roving names (channels whose position is not a reference position)."""
    used = set()
    if multi is None:
        multi = rng.random() < 0.45
    if not multi:
        n = rng.randint(1, 12)
        row = [_tok(rng, used) for _ in range(n)]
        return [row], None, list(row)
    ns = rng.randint(2, 4)
    k = rng.randint(1, 3)
    rows, ref, flat = [], [], [f"REF{i + 1}" for i in range(k)]
    budget = 12 - k
    for s in range(ns):
        nrov = rng.randint(0 if s else 1, max(1, min(4, budget - (ns - 1 - s))))
        nrov = max(0, min(nrov, budget))
        budget -= nrov
        ln = k + nrov
        pos = sorted(rng.sample(range(ln), k))
        if rng.random() < 0.3:
            rng.shuffle(pos)
        row = [_tok(rng, used) for _ in range(ln)]
        rows.append(row)
        ref.append(pos)
        flat += [row[j] for j in range(ln) if j not in pos]
    return rows, ref, flat


def gen_idx_sheet(rng, nnodes, ncol, maxrows=5, iname="label"):
    m = rng.randint(1, maxrows)
    return T(range(1, m + 1), ["start", "end"] if ncol == 2 else ["i", "j", "k"],
             [[rng.randint(1, max(1, nnodes)) for _ in range(ncol)] for _ in range(m)], iname)


def gen_nodes(rng, maxrows=5):
    m = rng.randint(1, maxrows)
    return T(range(1, m + 1), ["x", "y", "z"], [[_num(rng) for _ in range(3)] for _ in range(m)], "ptName"), m


def gen_opt(rng, keys_idx, nn, with_bg=True):
    """optional sheets: present / absent / empty frame / header only"""
    opt = {}
    for key, ncol in keys_idx:
        c = rng.random()
        if c < 0.55:
            opt[key] = gen_idx_sheet(rng, nn, ncol)
        elif c < 0.7:
            opt[key] = "empty"
        elif c < 0.78:
            opt[key] = T([], ["start", "end"] if ncol == 2 else ["i", "j", "k"], [])
    if with_bg and rng.random() < 0.7:
        nodes, m = gen_nodes(rng)
        opt["BG nodes"] = nodes
        if rng.random() < 0.7:
            opt["BG lines"] = gen_idx_sheet(rng, m, 2)
        if rng.random() < 0.5:
            opt["BG surfaces"] = gen_idx_sheet(rng, m, 3)
    elif rng.random() < 0.3:
        opt["BG nodes"] = "empty"
    return opt


def gen_geo1(rng, multi=None, permute=True):
    rows, ref, flat = gen_names(rng, multi)
    labels = list(flat)
    for _ in range(rng.choice([0, 0, 1, 2])):  # rows of sensors that are not used
        labels.append(_tok(rng, set(labels), "extra"))
    if permute and rng.random() < 0.85:
        rng.shuffle(labels)
    coord = {s: [_num(rng) for _ in range(3)] for s in labels}
    if rng.random() < 0.1:
        coord[rng.choice(labels)][rng.randrange(3)] = NAN
    sdir = {s: [0, 0, 0] for s in labels}
    for s in labels:
        sdir[s][rng.randrange(3)] = rng.choice([1, -1])
    # inclined sensors: a direction is any vector (direction cosines such as (0.6, -0.8, 0), or un-normalised components),
    # not only a signed axis; the table's values are part of what has to come back unchanged
    incl = rng.random()
    if incl < 0.45:
        for s in labels:
            if incl < 0.15 or rng.random() < 0.4:
                sdir[s] = rng.choice([[0.6, -0.8, 0], [0, 0.6, 0.8], [0.5, 0.5, -0.75], [-0.28, 0, 0.96],
                                      [_num(rng) / 8 for _ in range(3)], [0.25, -0.5, 2.5]])
    spec = {
        "kind": "geo1", "rows": rows, "ref_ind": ref, "flat": flat, "labels": labels,
        "coord": coord, "dir": sdir, "coord_perm": (rng.choice([[2, 0, 1], [1, 0, 2], [2, 1, 0], [0, 2, 1]]) if rng.random() < 0.2 else None),
        "opt": gen_opt(rng, [("sensors lines", 2)], len(flat)),
        "info": rng.random() < 0.3, "extra": {},
    }
    return spec


def build_fd1(spec):
    fd = {}
    if spec.get("info"):
        fd["INFO"] = pd.DataFrame({"a": ["text"]})
    fd["sensors names"] = mk_names_table(spec["rows"]) if "names_obj" not in spec else spec["names_obj"]
    lab = spec["labels"]
    cp = spec.get("coord_perm")
    if cp and "coord_cols" not in spec and all(len(spec["coord"][s]) == 3 for s in lab):
        # the columns labelled x, y, z stored in another order (z, x, y ...): the same table, values selected by label
        fd["sensors coordinates"] = mk_df(T(lab, ["xyz"[i] for i in cp], [[spec["coord"][s][i] for i in cp] for s in lab]))
    else:
        fd["sensors coordinates"] = mk_df(T(lab, spec.get("coord_cols", ["x", "y", "z"]), [spec["coord"][s] for s in lab]))
    dlab = spec.get("dir_labels", lab)
    fd["sensors directions"] = mk_df(T(dlab, spec.get("dir_cols", ["x", "y", "z"]), [spec["dir"][s] for s in dlab]))
    for k, t in spec["opt"].items():
        fd[k] = mk_df(t)
    for k, t in spec.get("extra", {}).items():
        fd[k] = mk_df(t)
    for k in spec.get("drop", []):
        fd.pop(k, None)
    return fd


def gen_geo2(rng, multi=None):
    rows, ref, flat = gen_names(rng, multi)
    n = len(flat)
    P = rng.randint(max(1, (n + 2) // 3), max(2, (n + 2) // 3 + 3))
    cells = [(i, j) for i in range(P) for j in range(3)]
    rng.shuffle(cells)
    mapping = [[0, 0, 0] for _ in range(P)]
    for s in flat:
        i, j = cells.pop()
        mapping[i][j] = s
    # some names placed a second time
    for s in rng.sample(flat, min(len(flat), rng.choice([0, 0, 1, 2]))):
        if cells:
            i, j = cells.pop()
            mapping[i][j] = s
    cstr = None
    if rng.random() < 0.6 and cells:
        m = rng.randint(1, min(3, len(cells)))
        cn = [f"K{rng.randint(1, 9)}{chr(97 + q)}" for q in range(m)]
        for c in cn:
            i, j = cells.pop()
            mapping[i][j] = c
        ccols = rng.sample(flat, rng.randint(1, len(flat)))
        coef = {c: {s: (NAN if rng.random() < 0.2 else rng.choice([0.5, 1, -1, 0.25, 2, round(rng.uniform(-2, 2), 2)])) for s in ccols} for c in cn}
        cstr = {"rows": cn, "cols": ccols, "coef": coef}
    elif rng.random() < 0.3:
        cstr = "empty"
    for (i, j) in cells:  # unfilled cells: 0, 0.0 or NaN as in a hand-filled sheet
        mapping[i][j] = rng.choice([0, 0, NAN, 0.0])
    pts = [[_num(rng) for _ in range(3)] for _ in range(P)]
    c = rng.random()
    sign = [[rng.choice([1, -1, 0, 1]) for _ in range(3)] for _ in range(P)] if c < 0.6 else ("empty" if c < 0.75 else None)
    spec = {
        "kind": "geo2", "rows": rows, "ref_ind": ref, "flat": flat, "P": P, "pts": pts, "map": mapping,
        "cstr": cstr, "sign": sign,
        "opt": gen_opt(rng, [("sensors lines", 2), ("sensors surfaces", 3)], P),
        "info": rng.random() < 0.3, "extra": {},
    }
    return spec


def build_fd2(spec):
    fd = {}
    if spec.get("info"):
        fd["INFO"] = pd.DataFrame({"a": ["text"]})
    fd["sensors names"] = mk_names_table(spec["rows"]) if "names_obj" not in spec else spec["names_obj"]
    P = spec["P"]
    idx = list(range(1, P + 1))
    fd["points coordinates"] = mk_df(T(spec.get("pts_index", idx), spec.get("pts_cols", ["x", "y", "z"]), spec["pts"], "ptName"))
    fd["mapping"] = mk_df(T(spec.get("map_index", idx), spec.get("map_cols", ["x", "y", "z"]), spec["map"], "ptName"))
    cs = spec["cstr"]
    if cs == "empty":
        fd["constraints"] = pd.DataFrame()
    elif cs is not None:
        fd["constraints"] = mk_df(T(cs["rows"], cs["cols"], [[cs["coef"][c][s] for s in cs["cols"]] for c in cs["rows"]], "name"))
    sg = spec["sign"]
    if sg == "empty":
        fd["sensors sign"] = pd.DataFrame()
    elif sg is not None:
        fd["sensors sign"] = mk_df(T(spec.get("sign_index", idx), spec.get("sign_cols", ["x", "y", "z"]), sg, "ptName"))
    for k, t in spec["opt"].items():
        fd[k] = mk_df(t)
    for k, t in spec.get("extra", {}).items():
        fd[k] = mk_df(t)
    for k in spec.get("drop", []):
        fd.pop(k, None)
    return fd


# ----------------------------------------------------------------------------- single-fault corruptions
def _bad_cols(t, ncol, rng):
    bad = rng.choice([c for c in (1, 2, 3, 4) if c != ncol])
    m = max(1, len(t["index"]) if isinstance(t, dict) else 2)
    return T(range(1, m + 1), [f"c{i}" for i in range(bad)], [[1] * bad for _ in range(m)])


CORR1 = ["missing_names", "missing_coord", "missing_dir", "unknown_sheet", "coord_cols", "dir_shape_rows",
         "dir_shape_cols", "bgnodes_cols", "bglines_cols", "bgsurf_cols", "index_labels", "index_order",
         "name_absent", "name_renamed", "dup_label"]
CORR2 = ["missing_names", "missing_pts", "missing_map", "unknown_sheet", "pts_cols", "map_shape_rows",
         "map_shape_cols", "sign_shape", "bgnodes_cols", "bglines_cols", "bgsurf_cols", "name_absent",
         "cstr_unknown_sensor", "cstr_unused"]


def corrupt1(spec, tag, rng):
    """one malformation of the statement applied to a valid geo1 spec (None if not applicable)"""
    s = copy.deepcopy(spec)
    s["fault"] = tag
    lab = s["labels"]
    if tag == "missing_names":
        s["drop"] = ["sensors names"]
    elif tag == "missing_coord":
        s["drop"] = ["sensors coordinates"]
    elif tag == "missing_dir":
        s["drop"] = ["sensors directions"]
    elif tag == "unknown_sheet":
        s["extra"] = {rng.choice(["sensor lines", "BG node", "mapping", "Sheet1", "sensors surfaces"]): T([1], ["a"], [[1]])}
    elif tag == "coord_cols":
        nc = rng.choice([2, 4])
        s["coord_cols"] = ["x", "y", "z", "w"][:nc]
        s["dir_cols"] = s["coord_cols"]
        for q in lab:
            s["coord"][q] = (s["coord"][q] + [1])[:nc]
            s["dir"][q] = (s["dir"][q] + [0])[:nc]
    elif tag == "dir_shape_rows":
        if len(lab) < 2:
            return None
        s["dir_labels"] = lab[:-1]
    elif tag == "dir_shape_cols":
        nc = rng.choice([2, 4])
        s["dir_cols"] = ["x", "y", "z", "w"][:nc]
        for q in lab:
            s["dir"][q] = (s["dir"][q] + [0])[:nc]
    elif tag == "bgnodes_cols":
        s["opt"]["BG nodes"] = _bad_cols(s["opt"].get("BG nodes"), 3, rng)
    elif tag == "bglines_cols":
        s["opt"]["BG lines"] = _bad_cols(s["opt"].get("BG lines"), 2, rng)
    elif tag == "bgsurf_cols":
        s["opt"]["BG surfaces"] = _bad_cols(s["opt"].get("BG surfaces"), 3, rng)
    elif tag == "index_labels":
        q = rng.choice(lab)
        new = q + "_other"
        s["dir_labels"] = [new if x == q else x for x in lab]
        s["dir"][new] = s["dir"][q]
    elif tag == "index_order":
        if len(lab) < 2:
            return None
        dl = list(lab)
        i, j = rng.sample(range(len(dl)), 2)
        dl[i], dl[j] = dl[j], dl[i]
        s["dir_labels"] = dl
    elif tag == "name_absent":
        q = rng.choice(s["flat"])
        s["labels"] = [x for x in lab if x != q]
        if not s["labels"]:
            return None
    elif tag == "name_renamed":
        q = rng.choice(s["flat"])
        new = q + "X"
        s["labels"] = [new if x == q else x for x in lab]
        s["coord"][new] = s["coord"][q]
        s["dir"][new] = s["dir"][q]
    elif tag == "dup_label":
        # a label twice in both tables (with different rows) while the table order differs from the names
        if len(s["flat"]) < 2:
            return None
        q = s["flat"][0]
        s["labels"] = [x for x in lab if x != q] + [q, q] if lab[0] == q else lab + [q]
        if s["labels"] == s["flat"]:
            return None
    return s


def corrupt2(spec, tag, rng):
    s = copy.deepcopy(spec)
    s["fault"] = tag
    P = s["P"]
    if tag == "missing_names":
        s["drop"] = ["sensors names"]
    elif tag == "missing_pts":
        s["drop"] = ["points coordinates"]
    elif tag == "missing_map":
        s["drop"] = ["mapping"]
    elif tag == "unknown_sheet":
        s["extra"] = {rng.choice(["sensors coordinates", "sensors directions", "constraint", "Sheet1"]): T([1], ["a"], [[1]])}
    elif tag == "pts_cols":
        nc = rng.choice([2, 4])
        s["pts_cols"] = ["x", "y", "z", "w"][:nc]
        s["map_cols"] = s["pts_cols"]
        s["pts"] = [(r + [1])[:nc] for r in s["pts"]]
        s["map"] = [(r + [0])[:nc] for r in s["map"]]
        if nc == 2 and not all(any(q == c for r in s["map"] for c in r) for q in s["flat"]):
            pass  # still rejected at the column count, which comes first
    elif tag == "map_shape_rows":
        s["map"] = s["map"] + [[0, 0, 0]]
        s["map_index"] = list(range(1, P + 2))
    elif tag == "map_shape_cols":
        s["map_cols"] = ["x", "y", "z", "w"]
        s["map"] = [r + [0] for r in s["map"]]
    elif tag == "sign_shape":
        s["sign"] = [[1, 1, 1] for _ in range(P + 1)]
        s["sign_index"] = list(range(1, P + 2))
    elif tag == "bgnodes_cols":
        s["opt"]["BG nodes"] = _bad_cols(s["opt"].get("BG nodes"), 3, rng)
    elif tag == "bglines_cols":
        s["opt"]["BG lines"] = _bad_cols(s["opt"].get("BG lines"), 2, rng)
    elif tag == "bgsurf_cols":
        s["opt"]["BG surfaces"] = _bad_cols(s["opt"].get("BG surfaces"), 3, rng)
    elif tag == "name_absent":
        q = rng.choice(s["flat"])
        s["map"] = [[0 if c == q else c for c in r] for r in s["map"]]
    elif tag == "cstr_unknown_sensor":
        if not isinstance(s["cstr"], dict):
            return None
        cs = s["cstr"]
        new = "nosuch_sensor"
        cs["cols"] = cs["cols"] + [new]
        for c in cs["rows"]:
            cs["coef"][c][new] = 1
    elif tag == "cstr_unused":
        if not isinstance(s["cstr"], dict):
            return None
        cs = s["cstr"]
        new = "Kunused"
        cs["rows"] = cs["rows"] + [new]
        cs["coef"][new] = {q: 1 for q in cs["cols"]}
    return s


# ----------------------------------------------------------------------------- repo handles
def _gen():
    from pyoma2.functions import gen

    return gen


def _setup_cls():
    from pyoma2.support.geometry.mixin import GeometryMixin

    class S(GeometryMixin):
        pass

    return S


def _res(Phi):
    from pyoma2.algorithms.data.result import BaseResult

    return BaseResult(Fn=np.arange(1.0, Phi.shape[1] + 1), Phi=Phi)


# ----------------------------------------------------------------------------- argument forms
FORMS = ["table", "lists", "array", "list"]


def names_form(spec, form):
    """the sensor names of a spec in one of the documented argument forms (None if the form does not exist)"""
    rows = spec["rows"]
    if form == "table":
        return mk_names_table(rows)
    if form == "lists":
        return [list(r) for r in rows] if spec["ref_ind"] is not None else None
    if spec["ref_ind"] is not None:
        return None
    if form == "array":
        return np.array(rows[0])
    return list(rows[0])


def opt_arg(t, as_array):
    if t is None:
        return None
    df = mk_df(t)
    if as_array:
        if df.empty:
            return None
        return df.to_numpy()
    return df


# single faults that can be expressed through the arguments of def_geo1 / def_geo2 (the required
# arguments cannot be missing, the dictionary keys are fixed); LABEL_FAULTS need a DataFrame of
# directions (an ndarray carries no row labels)
DEF_FAULT1 = ["index_labels", "index_order", "dir_shape_rows", "dir_shape_cols", "coord_cols", "name_absent",
              "name_renamed", "bgnodes_cols", "bglines_cols", "bgsurf_cols"]
DEF_FAULT2 = ["pts_cols", "map_shape_rows", "map_shape_cols", "sign_shape", "name_absent", "cstr_unknown_sensor",
              "cstr_unused", "bgnodes_cols", "bglines_cols", "bgsurf_cols"]
LABEL_FAULTS = ("index_labels", "index_order", "dup_label")


def defgeo1_args(spec, form, arrays):
    """arguments of def_geo1 from the same frames as the sheet dictionary (so that every
    corruption of the spec reaches the class-level entry point as well)"""
    fd = build_fd1({**spec, "info": False, "drop": []})
    o = spec["opt"]
    dirs = fd["sensors directions"]
    dir_array = arrays and spec.get("fault") not in LABEL_FAULTS
    return dict(
        sens_names=names_form(spec, form), sens_coord=fd["sensors coordinates"],
        sens_dir=dirs.to_numpy() if dir_array else dirs,
        sens_lines=opt_arg(o.get("sensors lines"), arrays), bg_nodes=opt_arg(o.get("BG nodes"), arrays),
        bg_lines=opt_arg(o.get("BG lines"), arrays), bg_surf=opt_arg(o.get("BG surfaces"), arrays),
    )


def defgeo2_args(spec, form, arrays):
    fd = build_fd2({**spec, "info": False, "drop": []})
    o = spec["opt"]
    return dict(
        sens_names=names_form(spec, form), pts_coord=fd["points coordinates"], sens_map=fd["mapping"],
        cstr=fd.get("constraints"), sens_sign=fd.get("sensors sign"),
        sens_lines=opt_arg(o.get("sensors lines"), arrays), sens_surf=opt_arg(o.get("sensors surfaces"), arrays),
        bg_nodes=opt_arg(o.get("BG nodes"), arrays), bg_lines=opt_arg(o.get("BG lines"), arrays),
        bg_surf=opt_arg(o.get("BG surfaces"), arrays),
    )


def _arrarg(x):
    if x is None:
        return None
    if isinstance(x, pd.DataFrame):
        return {"t": tbl_json(x), "arr": False}
    return {"t": arr_json(x), "arr": True}


def _snap(objs):
    """deep copies of the tables / arrays / lists a caller hands over (to see whether a call changed them)"""
    return {k: copy.deepcopy(v) for k, v in objs.items() if isinstance(v, (pd.DataFrame, np.ndarray, list))}


def _same_obj(a, b):
    if isinstance(a, pd.DataFrame):
        return (isinstance(b, pd.DataFrame) and a.shape == b.shape and list(a.index) == list(b.index)
                and list(a.columns) == list(b.columns) and a.equals(b))
    if isinstance(a, np.ndarray):
        if not isinstance(b, np.ndarray) or a.shape != b.shape or a.dtype != b.dtype:
            return False
        return bool(np.array_equal(a, b, equal_nan=True)) if a.dtype.kind in "fc" else bool((a == b).all())
    return type(a) is type(b) and a == b


def _modified(objs, snap):
    """names of the caller's objects that are no longer what they were"""
    return sorted(k for k, v in snap.items() if not _same_obj(objs[k], v))


def call_defgeo(S, which, args, ref_ind, share=False, obj=None):
    """def_geo1 / def_geo2 on a new setup object (or on `obj`); with `share` the caller's own
    argument objects are handed over (as a user does), else private copies"""
    s = S() if obj is None else obj
    if ref_ind is not None:
        s.ref_ind = ref_ind
    a = dict(args) if share else {k: (copy.deepcopy(v)) for k, v in args.items()}
    if which == 1:
        s.def_geo1(**a)
        g = s.geo1
        return s, (g.sens_names, g.sens_coord, g.sens_dir, g.sens_lines, g.bg_nodes, g.bg_lines, g.bg_surf)
    s.def_geo2(**a)
    g = s.geo2
    return s, (g.sens_names, g.pts_coord, g.sens_map, g.cstrn, g.sens_sign, g.sens_lines, g.sens_surf, g.bg_nodes, g.bg_lines, g.bg_surf)


# ----------------------------------------------------------------------------- correspondence
def corr_flatten(ctx, gen):
    rng = ctx.rng
    for _ in range(ctx.n(120, 1500)):
        rows, ref, flat = gen_names(rng)
        c = rng.random()
        if c < 0.35:
            obj = mk_names_table(rows)
        elif c < 0.6:
            obj = [list(r) for r in rows] if ref is not None else list(rows[0])
        elif c < 0.7:
            obj = np.array(rows[0]) if ref is None else [list(r) for r in rows]
        elif c < 0.78:  # malformed stream
            obj = rng.choice([np.array([rows[0]]), tuple(rows[0]), [rows[0][0], [rows[0][0]]], pd.DataFrame(), [], mk_names_table([rows[0][:1] + [NAN] + rows[0][1:]])])
        else:
            obj = mk_names_table(rows) if rng.random() < 0.5 else [list(r) for r in rows]
        r = ref
        d = rng.random()
        if d < 0.12:
            r = None
        elif d < 0.2 and ref is not None:
            r = ref[: rng.randint(0, len(ref) - 1)]
        elif d < 0.28 and ref is None:
            r = [[0]]
        elif d < 0.34 and ref is not None:
            r = ref + [[0]]
        inp = {"names": names_json(obj), "ref_ind": r}
        model = ctx.model("c19_flatten", **inp)
        res = run(gen.flatten_sns_names, copy.deepcopy(obj), r)
        ok = (res[0] and "ok" in model and same_names(model["ok"], res[1])) or (not res[0] and "err" in model and err_match(model, res))
        ctx.corr("flatten_sns_names", ok, inp, model, summarize(res), (inp["names"]["form"], len(rows), r is None, "ok" in model))
        ctx.count("flatten_" + ("ok" if "ok" in model else model["err"]))


def corr_geo(ctx, gen, which):
    rng = ctx.rng
    fn = gen.check_on_geo1 if which == 1 else gen.check_on_geo2
    op = "c19_geo1" if which == 1 else "c19_geo2"
    tags = CORR1 if which == 1 else CORR2
    ggen, build, corrupt, cmpf = (gen_geo1, build_fd1, corrupt1, cmp_geo1) if which == 1 else (gen_geo2, build_fd2, corrupt2, cmp_geo2)
    for it in range(ctx.n(70, 1200)):
        spec = ggen(rng)
        cases = [("valid", spec)]
        # every single-fault corruption, cycled
        tg = tags[it % len(tags)]
        cs = corrupt(spec, tg, rng)
        if cs is not None:
            cases.append((tg, cs))
        # names forms given directly to the check function; missing ref_ind for a multi-setup
        c = rng.random()
        if c < 0.25:
            s2 = copy.deepcopy(spec)
            s2["names_obj"] = rng.choice([x for x in (names_form(spec, f) for f in FORMS[1:]) if x is not None])
            cases.append(("names_form", s2))
        elif c < 0.35 and spec["ref_ind"] is not None:
            s2 = copy.deepcopy(spec)
            s2["ref_ind"] = None
            cases.append(("no_ref_ind", s2))
        elif c < 0.42:
            s2 = copy.deepcopy(spec)  # a string in an index sheet
            s2["opt"]["BG lines" if "BG lines" in s2["opt"] and s2["opt"]["BG lines"] != "empty" else "sensors lines"] = T([1], ["start", "end"], [[1, "a"]])
            cases.append(("str_in_index_sheet", s2))
        elif c < 0.5 and which == 1:
            s2 = copy.deepcopy(spec)  # duplicated label, table order equal to the names: pandas returns the frame as it is
            q = s2["flat"][-1]
            s2["labels"] = list(s2["flat"]) + [q]
            s2["rows"] = [list(s2["flat"]) + [q]] if s2["ref_ind"] is None else s2["rows"]
            if s2["ref_ind"] is None:
                s2["flat"] = s2["rows"][0]
                cases.append(("dup_label_same_order", s2))
        for tag, sp in cases:
            fd = build(sp)
            inp = {"fd": fd_json(fd), "ref_ind": sp["ref_ind"]}
            model = ctx.model(op, **inp)
            # the dictionary is the callee's to fill in, the tables are the caller's: the same
            # tables are checked twice (the model is a pure function of them)
            res = run(fn, dict(fd), ref_ind=sp["ref_ind"])
            ok = cmpf(model, res)
            ctx.corr(f"check_on_geo{which}", ok, inp, model, summarize(res),
                     (tag, len(sp["flat"]), sp["ref_ind"] is None, tuple(sorted(sp["opt"])), model.get("err", "ok")))
            res2 = run(fn, dict(fd), ref_ind=sp["ref_ind"])
            ctx.corr(f"check_on_geo{which}[2nd call, same tables]", cmpf(model, res2) and fd_json(fd) == inp["fd"], inp, model,
                     summarize(res2), ("again", tag, model.get("err", "ok")))
            ctx.count(f"geo{which}_{tag}_{model.get('err', 'ok')}")
        if it == 0:
            ctx.sample({"geo": which, "names": spec["flat"], "ref_ind": spec["ref_ind"], "sheets": list(build(spec))})


def corr_defgeo(ctx):
    rng = ctx.rng
    S = _setup_cls()
    for it in range(ctx.n(90, 900)):
        which = 1 + it % 2
        spec = (gen_geo1 if which == 1 else gen_geo2)(rng)
        form = rng.choice([f for f in FORMS if names_form(spec, f) is not None])
        arrays = rng.random() < 0.5
        tag = "valid"
        c = rng.random()
        if c < 0.5:  # the single faults of check_on_geo1/2, through the class-level entry point
            tags = (DEF_FAULT1 + ["dup_label", "index_labels", "index_order"]) if which == 1 else DEF_FAULT2
            tg = tags[(it // 2) % len(tags)]
            cs = (corrupt1 if which == 1 else corrupt2)(spec, tg, rng)
            if cs is not None:
                spec, tag = cs, tg
        elif c < 0.62 and which == 2:
            # row labels of mapping / sign in another order than the points: the code matches rows by
            # position and returns the frames with the labels they came with
            spec = copy.deepcopy(spec)
            idx = list(range(1, spec["P"] + 1))
            rng.shuffle(idx)
            key = "map_index" if (rng.random() < 0.5 or not isinstance(spec["sign"], list)) else "sign_index"
            spec[key] = idx
            tag = key + "_perm"
        elif c < 0.62 and which == 1:
            # a frame of directions whose labels are those of the coordinates: consistent, any order
            arrays = False
            tag = "consistent_frames"
        args = (defgeo1_args if which == 1 else defgeo2_args)(spec, form, arrays)
        if which == 1 and isinstance(args["sens_dir"], np.ndarray) and tag == "valid" and rng.random() < 0.1:
            args["sens_dir"] = args["sens_dir"][:-1]  # malformed: a row short
            tag = "dir_array_short"
        inp = {"names": names_json(args["sens_names"]), "ref_ind": spec["ref_ind"]}
        if which == 1:
            inp.update(coord=tbl_json(args["sens_coord"]), dir=_arrarg(args["sens_dir"]), lines=_arrarg(args["sens_lines"]),
                       bgNodes=_arrarg(args["bg_nodes"]), bgLines=_arrarg(args["bg_lines"]), bgSurf=_arrarg(args["bg_surf"]))
        else:
            inp.update(pts=tbl_json(args["pts_coord"]), map=tbl_json(args["sens_map"]), cstr=_arrarg(args["cstr"]),
                       sign=_arrarg(args["sens_sign"]), lines=_arrarg(args["sens_lines"]), surf=_arrarg(args["sens_surf"]),
                       bgNodes=_arrarg(args["bg_nodes"]), bgLines=_arrarg(args["bg_lines"]), bgSurf=_arrarg(args["bg_surf"]))
        model = ctx.model(f"c19_defgeo{which}", **inp)
        snap = _snap(args)
        res = run(lambda: call_defgeo(S, which, args, spec["ref_ind"], share=True)[1])
        ok = (cmp_geo1 if which == 1 else cmp_geo2)(model, res)
        ctx.corr(f"def_geo{which}", ok, inp, model, summarize(res), (tag, form, arrays, len(spec["flat"]), model.get("err", "ok")))
        res2 = run(lambda: call_defgeo(S, which, args, spec["ref_ind"], share=True)[1])  # another object, the same arguments
        ctx.corr(f"def_geo{which}[2nd object, same arguments]", (cmp_geo1 if which == 1 else cmp_geo2)(model, res2) and not _modified(args, snap),
                 inp, model, summarize(res2), ("again", tag, form, arrays, model.get("err", "ok")))
        ctx.count(f"defgeo{which}_{form}_{'arrays' if arrays else 'frames'}")
        ctx.count(f"defgeo{which}_{tag}_{model.get('err', 'ok')}")


# ----------------------------------------------------------------------------- geometry from a file
BYFILE_PATH = "geometry/template.xlsx"


def call_by_file(S, which, fd, ref_ind, kw=None, geo_type=None):
    """def_geo1_by_file / def_geo2_by_file (or `_def_geo_by_file(geo_type, ...)`) on a new setup object, with
    `read_excel_file` as imported by support/geometry/mixin.py replaced by a function handing over the sheet dictionary
    `fd` (openpyxl is absent; the frames are what read_excel(index_col=0) delivers).
    -> (fields of the stored object, what the reader received, the OTHER geometry attribute)"""
    import pyoma2.support.geometry.mixin as mixin

    seen = {"calls": 0}

    def fake(path, **k):
        seen["calls"] += 1
        seen["path"], seen["kw"] = path, k
        return dict(fd)

    orig = mixin.read_excel_file
    mixin.read_excel_file = fake
    try:
        s = S()
        if ref_ind is not None:
            s.ref_ind = ref_ind
        kw = kw or {}
        if geo_type is not None:
            s._def_geo_by_file(geo_type, BYFILE_PATH, **kw)
        elif which == 1:
            s.def_geo1_by_file(BYFILE_PATH, **kw)
        else:
            s.def_geo2_by_file(BYFILE_PATH, **kw)
    finally:
        mixin.read_excel_file = orig
    if which == 1:
        g, other = s.geo1, s.geo2
        out = (g.sens_names, g.sens_coord, g.sens_dir, g.sens_lines, g.bg_nodes, g.bg_lines, g.bg_surf)
    else:
        g, other = s.geo2, s.geo1
        out = (g.sens_names, g.pts_coord, g.sens_map, g.cstrn, g.sens_sign, g.sens_lines, g.sens_surf, g.bg_nodes, g.bg_lines, g.bg_surf)
    return out, seen, other


def _distinct_index_sheets(spec, rng):
    """geo2: line and surface sheets both present and different (so that one taken for the other is seen)"""
    spec["opt"]["sensors lines"] = gen_idx_sheet(rng, spec["P"], 2, maxrows=3)
    spec["opt"]["sensors surfaces"] = gen_idx_sheet(rng, spec["P"], 3, maxrows=4)


def corr_by_file(ctx):
    """the file entry points against the model's defGeoByFile: same exception (class and check) or the same stored
    object field by field; the reader is called once with the path and exactly the caller's keywords; the other
    geometry attribute is left alone."""
    rng = ctx.rng
    S = _setup_cls()
    has_private = hasattr(S, "_def_geo_by_file")
    for it in range(ctx.n(70, 900)):
        which = 1 + it % 2
        spec = (gen_geo1 if which == 1 else gen_geo2)(rng)
        if which == 2 and it % 4 == 1:
            _distinct_index_sheets(spec, rng)
        build, corrupt, cmpf, tags = (build_fd1, corrupt1, cmp_geo1, CORR1) if which == 1 else (build_fd2, corrupt2, cmp_geo2, CORR2)
        cases = [("valid", spec, None)]
        tg = tags[(it // 2) % len(tags)]
        cs = corrupt(spec, tg, rng)
        if cs is not None:
            cases.append((tg, cs, None))
        c = rng.random()
        if c < 0.15 and has_private:
            cases.append(("other_geo_type", spec, rng.choice(["geo3", "GEO1", "", "geo"])))
        elif c < 0.3 and has_private:
            cases.append(("private_entry", spec, f"geo{which}"))
        elif c < 0.4 and which == 2:
            s2 = copy.deepcopy(spec)  # a string among the point coordinates: .astype(float) refuses it
            s2["pts"][rng.randrange(len(s2["pts"]))][rng.randrange(3)] = "u"
            cases.append(("pts_string", s2, None))
        for tag, sp, gt in cases:
            fd = build(sp)
            kw = rng.choice([{}, {}, {"sheet_name": None}, {"engine": "openpyxl", "index_col": 0}])
            inp = {"geo_type": gt if gt is not None else f"geo{which}", "fd": fd_json(fd), "ref_ind": sp["ref_ind"]}
            model = ctx.model("c19_by_file", **inp)
            seen = {}

            def call():
                out, sn, other = call_by_file(S, which, fd, sp["ref_ind"], kw, gt)
                seen.update(sn, other=other)
                return out

            res = run(call)
            ok = cmpf(model, res)
            if ok and res[0]:
                ok = model.get("kind") == f"geo{which}" and seen["calls"] == 1 and seen["path"] == BYFILE_PATH and seen["kw"] == kw and seen["other"] is None
            ctx.corr(f"def_geo{which}_by_file", ok, {**inp, "kw": sorted(kw)}, model, summarize(res),
                     (tag, len(sp["flat"]), sp["ref_ind"] is None, tuple(sorted(sp["opt"])), model.get("err", "ok"), model.get("why")))
            ctx.count(f"byfile{which}_{tag}_{model.get('err', 'ok')}")


def gen_mapcase(rng):
    """a checked geometry-2 (names, mapping without NaN, constraint frame over all names or None,
    coordinates, sign) and a mode shape"""
    spec = gen_geo2(rng)
    flat = spec["flat"]
    phi = [round(rng.uniform(-3, 3), 3) if rng.random() < 0.8 else float(rng.randint(-2, 2)) for _ in flat]
    return spec, phi


def corr_mapphi(ctx, gen):
    rng = ctx.rng
    for it in range(ctx.n(80, 1200)):
        spec, phi = gen_mapcase(rng)
        fd = build_fd2({**spec, "info": False})
        if "constraints" not in fd:
            fd["constraints"] = pd.DataFrame()
        ok0, out = run(gen.check_on_geo2, copy.deepcopy(fd), ref_ind=spec["ref_ind"])
        if not ok0:
            ctx.skipped += 1
            continue
        names, pts, smap, cstr, sign = out[0], out[1], out[2], out[3], out[4]
        c = rng.random()
        tag = "valid"
        if c < 0.12:  # malformed stream: a cell naming nothing / wrong lengths / duplicate names
            smap = smap.copy().astype(object)
            smap.iloc[rng.randrange(smap.shape[0]), rng.randrange(3)] = "nobody"
            tag = "unknown_cell"
        elif c < 0.18:
            phi = phi + [1.0]
            tag = "phi_too_long"
        elif c < 0.3 and len(names) >= 2:
            names = list(names)
            smap = smap.copy().astype(object).replace({names[-1]: names[0]})
            names[-1] = names[0]  # the same key twice: dict keeps the last value
            tag = "dup_name"
        elif c < 0.36 and cstr is not None:
            cstr = pd.concat([cstr, cstr.iloc[:1] * 2])  # the same constraint twice
            tag = "dup_cstr"
        elif c < 0.42 and cstr is not None and len(names) >= 1:
            smap = smap.copy().astype(object).replace({cstr.index[0]: names[0]})
            cstr = cstr.rename(index={cstr.index[0]: names[0]})  # a constraint called like a sensor: it wins
            tag = "cstr_named_as_sensor"
        inp = {"phi": [R(v) for v in phi], "names": [None if isnan(n) else n for n in names], "map": tbl_json(smap),
               "cstr": None if cstr is None else tbl_json(cstr),
               "coord": tbl_json(pts)["cells"], "sign": tbl_json(sign)["cells"]}
        model = ctx.model("c19_mapphi", **inp)
        margs = {"phi": np.array(phi), "names": list(names), "smap": smap, "cstr": cstr}
        msnap = _snap(margs)
        run(gen.dfphi_map_func, margs["phi"], margs["names"], smap, cstrn=cstr)
        res = run(gen.dfphi_map_func, margs["phi"], margs["names"], smap, cstrn=cstr)  # second use of the same objects
        if _modified(margs, msnap):
            res = (False, "inputs modified: " + ",".join(_modified(margs, msnap)))
        if "err" in model:
            ok = err_match(model, res)
        elif not res[0]:
            ok = False
        else:
            got = res[1].to_numpy()
            disp = pts.to_numpy().astype(float) + got * sign.to_numpy().astype(float)
            ok = got.shape == (len(model["ok"]["mapped"]), 3) and all(
                same_cell(None if m is None else ["n", m], v, 1e-12)
                for mr, rr in zip(model["ok"]["mapped"], got) for m, v in zip(mr, rr)
            ) and all(
                same_cell(None if m is None else ["n", m], v, 1e-12)
                for mr, rr in zip(model["ok"]["disp"], disp) for m, v in zip(mr, rr)
            )
        ctx.corr("dfphi_map_func", ok, inp, model, summarize(res), (tag, len(names), cstr is not None, model.get("err", "ok")))
        ctx.count(f"mapphi_{tag}_{model.get('err', 'ok')}")


def defgeo_inp(which, args, ref_ind):
    """the arguments of def_geo1 / def_geo2 as the model's JSON"""
    inp = {"names": names_json(args["sens_names"]), "ref_ind": ref_ind}
    if which == 1:
        inp.update(coord=tbl_json(args["sens_coord"]), dir=_arrarg(args["sens_dir"]), lines=_arrarg(args["sens_lines"]),
                   bgNodes=_arrarg(args["bg_nodes"]), bgLines=_arrarg(args["bg_lines"]), bgSurf=_arrarg(args["bg_surf"]))
    else:
        inp.update(pts=tbl_json(args["pts_coord"]), map=tbl_json(args["sens_map"]), cstr=_arrarg(args["cstr"]),
                   sign=_arrarg(args["sens_sign"]), lines=_arrarg(args["sens_lines"]), surf=_arrarg(args["sens_surf"]),
                   bgNodes=_arrarg(args["bg_nodes"]), bgLines=_arrarg(args["bg_lines"]), bgSurf=_arrarg(args["bg_surf"]))
    return inp


def drawn(S, which, args, ref_ind, phi, scale, color="red", warm=None):
    """def_geo1 + plot_mode_geo1 / def_geo2 + plot_mode_geo2_mpl on a new setup object (Agg): the coordinates the
    artists hold.  geo1: (scatter offsets, [segment of arrow k]); geo2: scatter offsets of the displaced points."""
    import matplotlib.pyplot as plt
    from mpl_toolkits.mplot3d.art3d import Path3DCollection

    s, _ = call_defgeo(S, which, args, ref_ind)
    Phi = np.column_stack([np.zeros(len(phi)), np.array(phi, float)])
    try:
        if warm is not None:
            # the same setup object has already drawn ANOTHER result (same mode number, same scale factor): what is
            # drawn next is the result handed over next
            W = np.column_stack([np.zeros(len(warm)), np.array(warm, float)])
            (s.plot_mode_geo1 if which == 1 else s.plot_mode_geo2_mpl)(_res(W), 2, scaleF=scale)
            plt.close("all")
        if which == 1:
            fig, ax = s.plot_mode_geo1(_res(Phi), 2, scaleF=scale)
            n = len(s.geo1.sens_names)
            # plt_nodes comes first, then one line per arrow, then the background and the sensor lines
            off = np.column_stack([np.asarray(a, float) for a in ax.collections[0]._offsets3d])
            segs = [np.column_stack([np.asarray(a, float) for a in ln._verts3d]) for ln in ax.lines[:n]]
            return off, segs
        fig, ax = s.plot_mode_geo2_mpl(_res(Phi), 2, scaleF=scale, color=color)
        # the background nodes (if any) are scattered first, then the displaced points (one scatter unless 'cmap')
        sc = [c for c in ax.collections if isinstance(c, Path3DCollection)]
        P = s.geo2.pts_coord.shape[0]
        if color == "cmap":
            pts = sc[-P:]
            return np.array([[float(np.asarray(a, float).ravel()[0]) for a in c._offsets3d] for c in pts]).reshape(P, 3)
        return np.column_stack([np.asarray(a, float) for a in sc[-1]._offsets3d])
    finally:
        plt.close("all")


def _plot_summary(which, res):
    if not res[0]:
        return {"err": res[1]}
    if which == 1:
        return {"nodes": res[1][0].tolist(), "arrows": [g.tolist() for g in res[1][1]]}
    return {"points": np.asarray(res[1]).tolist()}


def _same_orow(mrow, real, tol):
    return len(mrow) == len(real) and all(same_cell(None if m is None else ["n", m], v, tol) for m, v in zip(mrow, real))


def corr_plot(ctx):
    """the whole display pipeline — def_geo1 + plot_mode_geo1, def_geo2 + plot_mode_geo2_mpl — against the model's
    defPlotGeo1 / defPlotGeo2: the coordinates held by the Agg artists (arrow k = line k: start and end point;
    displaced point i = row i of the scatter), for every argument form, with and without constraints / sign /
    background, and a malformed stream (shape of another length, single faults of the tables)."""
    rng = ctx.rng
    S = _setup_cls()
    TOL = 1e-11
    for it in range(ctx.n(70, 700)):
        which = 1 + it % 2
        spec = (gen_geo1 if which == 1 else gen_geo2)(rng)
        form = rng.choice([f for f in FORMS if names_form(spec, f) is not None])
        arrays = rng.random() < 0.5
        tag = "valid"
        phi = [round(rng.uniform(-3, 3), 3) if rng.random() < 0.8 else float(rng.randint(-2, 2)) for _ in spec["flat"]]
        scale = rng.choice([1, 1, 2, 5, 10, 0.5, -1.5, 0])
        c = rng.random()
        if c < 0.08 and len(phi) >= 2:
            phi = phi + [1.0]
            tag = "phi_too_long"
        elif c < 0.16:
            tags = DEF_FAULT1 if which == 1 else DEF_FAULT2
            cs = (corrupt1 if which == 1 else corrupt2)(spec, tags[it % len(tags)], rng)
            if cs is not None:
                spec, tag = cs, "fault_" + tags[it % len(tags)]
        elif c < 0.3 and which == 2:
            # mapping / sign row labels in another order than the points: rows are matched by position
            spec = copy.deepcopy(spec)
            idx = list(range(1, spec["P"] + 1))
            rng.shuffle(idx)
            spec["map_index" if (rng.random() < 0.5 or not isinstance(spec["sign"], list)) else "sign_index"] = idx
            tag = "labels_perm"
        args = (defgeo1_args if which == 1 else defgeo2_args)(spec, form, arrays)
        color = "cmap" if (which == 2 and rng.random() < 0.25 and len(set(phi)) > 1) else "red"
        inp = defgeo_inp(which, args, spec["ref_ind"])
        inp.update(phi=[R(v) for v in phi], scale=R(scale))
        model = ctx.model(f"c19_plotgeo{which}", **inp)
        warm = None
        if tag in ("valid", "labels_perm") and rng.random() < 0.5:
            warm = [round(1.7 * v + 0.3, 3) for v in reversed(phi)]
            ctx.count(f"plot{which}_after_another_result_on_the_same_setup")
        res = run(drawn, S, which, args, spec["ref_ind"], phi, scale, color, warm)
        if "err" in model:
            ok = err_match(model, res)
        elif not res[0]:
            ok = False
        elif which == 1:
            off, segs = res[1]
            arrows = model["ok"]
            ok = len(segs) == len(arrows) and all(
                seg.shape == (2, 3) and _same_orow(a[0], seg[0], TOL) and _same_orow(a[1], seg[1], TOL) for a, seg in zip(arrows, segs))
            if ok and all(v is not None for a in arrows for v in a[0]):
                # (matplotlib drops NaN points from a scatter: the nodes are compared when every coordinate is a number)
                ok = off.shape == (len(arrows), 3) and all(_same_orow(a[0], o, TOL) for a, o in zip(arrows, off))
        else:
            off = res[1]
            ok = off.shape == (len(model["ok"]), 3) and all(_same_orow(m, o, TOL) for m, o in zip(model["ok"], off))
        ctx.corr(f"plot_mode_geo{which}", ok, inp, model,
                 _plot_summary(which, res),
                 (tag, form, arrays, len(spec["flat"]), isinstance(spec.get("cstr"), dict), isinstance(spec.get("sign"), list),
                  scale, color, model.get("err", "ok")))
        ctx.count(f"plot{which}_{tag}_{model.get('err', 'ok')}")


def drawn_lines(S, which, args, ref_ind, phi, scale, color="red"):
    """def_geo + plot_mode on a new setup object (Agg): every line artist of the axes as a (2, 3) array, in drawing order
    (geo1: one per arrow first; then the background lines; then the sensor lines; last the three lines of the origin triad)"""
    import matplotlib.pyplot as plt

    s, _ = call_defgeo(S, which, args, ref_ind)
    Phi = np.column_stack([np.zeros(len(phi)), np.array(phi, float)])
    try:
        if which == 1:
            fig, ax = s.plot_mode_geo1(_res(Phi), 2, scaleF=scale)
        else:
            fig, ax = s.plot_mode_geo2_mpl(_res(Phi), 2, scaleF=scale, color=color)
        return [np.column_stack([np.asarray(a, float) for a in ln._verts3d]) for ln in ax.lines]
    finally:
        plt.close("all")


def _same_segs(msegs, real, tol):
    return len(msegs) == len(real) and all(
        seg.shape == (2, 3) and _same_orow(m[0], seg[0], tol) and _same_orow(m[1], seg[1], tol) for m, seg in zip(msegs, real))


def corr_plot_lines(ctx):
    """the zero-based index arrays where they are consumed: the line artists of plot_mode_geo1 / plot_mode_geo2_mpl (sensor
    lines between the sensor positions / the DISPLACED points, background lines between background nodes) against the
    model's defPlotGeo1Lines / defPlotGeo2Lines; malformed: an index one past the last point, 0 in a one-based sheet (numpy
    counts -1 from the end), a NaN in the sheet."""
    rng = ctx.rng
    S = _setup_cls()
    TOL = 1e-11
    for it in range(ctx.n(40, 500)):
        which = 1 + it % 2
        spec = (gen_geo1 if which == 1 else gen_geo2)(rng)
        nn = len(spec["flat"]) if which == 1 else spec["P"]
        tag = "valid"
        if it % 5 != 4:
            spec["opt"]["sensors lines"] = gen_idx_sheet(rng, nn, 2, maxrows=4)
        if it % 3 == 0:
            nodes, m = gen_nodes(rng)
            spec["opt"].update({"BG nodes": nodes, "BG lines": gen_idx_sheet(rng, m, 2, maxrows=3)})
        # (surfaces are triangulated by matplotlib, which has its own checks: not part of this stream)
        spec["opt"].pop("BG surfaces", None)
        spec["opt"].pop("sensors surfaces", None)
        sl = spec["opt"].get("sensors lines")
        c = rng.random()
        if isinstance(sl, dict) and sl["rows"] and c < 0.3:
            sl = copy.deepcopy(sl)
            r, k = rng.randrange(len(sl["rows"])), rng.randrange(2)
            tag = rng.choice(["index_past_end", "zero_in_sheet", "nan_in_sheet"])
            sl["rows"][r][k] = {"index_past_end": nn + 1, "zero_in_sheet": 0, "nan_in_sheet": NAN}[tag]
            spec["opt"]["sensors lines"] = sl
        if which == 1:  # (NaN coordinates are drawn as NaN; keep the points comparable)
            spec["coord"] = {q: [0.0 if isnan(v) else v for v in row] for q, row in spec["coord"].items()}
        form = rng.choice([f for f in FORMS if names_form(spec, f) is not None])
        arrays = rng.random() < 0.5 and tag != "nan_in_sheet"
        phi = [round(rng.uniform(-3, 3), 3) for _ in spec["flat"]]
        scale = rng.choice([1, 2, 5, 0.5, -1.5])
        color = "cmap" if (which == 2 and rng.random() < 0.25) else "red"
        args = (defgeo1_args if which == 1 else defgeo2_args)(spec, form, arrays)
        inp = defgeo_inp(which, args, spec["ref_ind"])
        inp.update(phi=[R(v) for v in phi], scale=R(scale))
        model = ctx.model(f"c19_plotlines{which}", **inp)
        res = run(drawn_lines, S, which, args, spec["ref_ind"], phi, scale, color)
        if "err" in model:
            ok = err_match(model, res)
        elif not res[0]:
            ok = False
        else:
            segs = res[1]
            na = len(spec["flat"]) if which == 1 else 0
            nb, ns = len(model["ok"]["bg"]), len(model["ok"]["sens"])
            # set_ax_options (add_orig) draws the three lines of the origin triad last
            ok = (len(segs) == na + nb + ns + 3 and _same_segs(model["ok"]["bg"], segs[na:na + nb], TOL)
                  and _same_segs(model["ok"]["sens"], segs[na + nb:na + nb + ns], TOL))
            ctx.count(f"plotlines{which}_sens_{min(ns, 3)}_bg_{min(nb, 2)}")
        ctx.corr(f"plot_mode_geo{which}[lines]", ok, inp, model,
                 {"err": res[1]} if not res[0] else {"lines": [g.tolist() for g in res[1]]},
                 (tag, form, arrays, color, "sensors lines" in spec["opt"], "BG lines" in spec["opt"], model.get("err", "ok")))
        ctx.count(f"plotlines{which}_{tag}_{model.get('err', 'ok')}")


def corr_two_faults(ctx, gen):
    """two malformations at once: the exception (class and, through the message, WHICH check) is that of the model, i.e. of
    the first failing check in the order of the code (C19_geo1_first_why / C19_geo2_first_why / C19_missing_first)"""
    rng = ctx.rng
    for it in range(ctx.n(60, 800)):
        which = 1 + it % 2
        fn = gen.check_on_geo1 if which == 1 else gen.check_on_geo2
        ggen, build, corrupt, cmpf, tags = ((gen_geo1, build_fd1, corrupt1, cmp_geo1, [t for t in CORR1 if t != "dup_label"]) if which == 1
                                            else (gen_geo2, build_fd2, corrupt2, cmp_geo2, CORR2))
        spec = ggen(rng)
        t1, t2 = rng.sample(tags, 2)
        try:
            c1 = corrupt(spec, t1, rng)
            c2 = corrupt(c1, t2, rng) if c1 is not None else None
            fd = build(c2) if c2 is not None else None
        except Exception:  # noqa: BLE001  (the second corruption does not apply to the result of the first)
            fd = None
        if fd is None:
            ctx.skipped += 1
            continue
        inp = {"fd": fd_json(fd), "ref_ind": c2["ref_ind"]}
        model = ctx.model(f"c19_geo{which}", **inp)
        res = run(fn, dict(fd), ref_ind=c2["ref_ind"])
        ctx.corr(f"check_on_geo{which}[two faults]", cmpf(model, res), inp, model, summarize(res),
                 (tuple(sorted((t1, t2))), model.get("err", "ok"), model.get("why")))
        ctx.count(f"twofaults{which}_{model.get('why', model.get('err', 'ok'))}")


def correspondence(ctx):
    gen = _gen()
    corr_flatten(ctx, gen)
    corr_geo(ctx, gen, 1)
    corr_geo(ctx, gen, 2)
    corr_two_faults(ctx, gen)
    corr_defgeo(ctx)
    corr_by_file(ctx)
    corr_mapphi(ctx, gen)
    corr_plot(ctx)
    corr_plot_lines(ctx)


# ----------------------------------------------------------------------------- oracle (from the statement)
def _eqnum(a, b):
    if isnan(a) or isnan(b):
        return isnan(a) and isnan(b)
    if isinstance(a, str) or isinstance(b, str):
        return isinstance(a, str) and isinstance(b, str) and a == b
    return float(a) == float(b)


def _rows_eq(real, want):
    """returned ndarray/DataFrame (or None) against plain rows (or None)"""
    if want is None or real is None:
        return want is None and real is None
    arr = real.to_numpy(dtype=object) if isinstance(real, pd.DataFrame) else np.asarray(real, dtype=object)
    return arr.ndim == 2 and arr.shape[0] == len(want) and all(
        len(r) == len(w) and all(_eqnum(a, b) for a, b in zip(r, w)) for r, w in zip(arr, want)
    )


def _opt_want(spec, key, shift):
    t = spec["opt"].get(key)
    if key in spec.get("drop", []) or t is None or t == "empty" or not t["index"]:
        return None
    return [[c - shift for c in r] for r in t["rows"]]


def expect_geo1(spec):
    """what the statement prescribes for a valid geometry-1 spec (dict look-ups only)"""
    return {
        "names": spec["flat"],
        "coord": [spec["coord"][s] for s in spec["flat"]],
        "dir": [spec["dir"][s] for s in spec["flat"]],
        "lines": _opt_want(spec, "sensors lines", 1),
        "bgn": _opt_want(spec, "BG nodes", 0),
        "bgl": _opt_want(spec, "BG lines", 1),
        "bgs": _opt_want(spec, "BG surfaces", 1),
    }


def judge_geo1(spec, out):
    """None if the returned geometry is the prescribed one, else a short failure class"""
    names, coord, sdir, lines, bgn, bgl, bgs = out
    w = expect_geo1(spec)
    if list(names) != w["names"]:
        return "names-order"
    if isinstance(coord, pd.DataFrame) and sorted(map(str, coord.columns)) == ["x", "y", "z"] and list(coord.columns) != ["x", "y", "z"]:
        coord = coord[["x", "y", "z"]]  # the coordinate columns are labelled: read by label, whatever order they are stored in
    if not isinstance(coord, pd.DataFrame) or list(coord.index) != w["names"] or not _rows_eq(coord, w["coord"]):
        return "align-coord"
    if not _rows_eq(sdir, w["dir"]):
        return "align-dir"
    for got, key in ((lines, "lines"), (bgl, "bgl"), (bgs, "bgs")):
        if not _rows_eq(got, w[key]):
            return "zero-based-" + key
    if not _rows_eq(bgn, w["bgn"]):
        return "bg-nodes-changed"
    return None


def expect_geo2(spec):
    flat = spec["flat"]
    cs = spec["cstr"]
    cstr = None
    if isinstance(cs, dict) and "constraints" not in spec.get("drop", []):
        cstr = [[(0 if (s not in cs["cols"] or isnan(cs["coef"][c][s])) else cs["coef"][c][s]) for s in flat] for c in cs["rows"]]
    sg = spec["sign"]
    if sg is None or sg == "empty" or "sensors sign" in spec.get("drop", []):
        sg = [[1, 1, 1] for _ in range(spec["P"])]
    return {
        "names": flat, "pts": spec["pts"],
        "map": [[0 if isnan(c) else c for c in r] for r in spec["map"]],
        "cstr": cstr, "cstr_rows": None if cstr is None else cs["rows"], "sign": sg,
        "lines": _opt_want(spec, "sensors lines", 1), "surf": _opt_want(spec, "sensors surfaces", 1),
        "bgn": _opt_want(spec, "BG nodes", 0), "bgl": _opt_want(spec, "BG lines", 1), "bgs": _opt_want(spec, "BG surfaces", 1),
    }


def judge_geo2(spec, out):
    names, pts, smap, cstr, sign, lines, surf, bgn, bgl, bgs = out
    w = expect_geo2(spec)
    if list(names) != w["names"]:
        return "names-order"
    if not _rows_eq(pts, w["pts"]):
        return "points-changed"
    if not _rows_eq(smap, w["map"]):
        return "mapping-changed"
    if w["cstr"] is None:
        if cstr is not None:
            return "cstr-not-none"
    else:
        if not isinstance(cstr, pd.DataFrame) or list(cstr.columns) != w["names"] or list(cstr.index) != w["cstr_rows"] or not _rows_eq(cstr, w["cstr"]):
            return "cstr-align"
    if not _rows_eq(sign, w["sign"]):
        return "sign"
    for got, key in ((lines, "lines"), (surf, "surf"), (bgl, "bgl"), (bgs, "bgs")):
        if not _rows_eq(got, w[key]):
            return "zero-based-" + key
    if not _rows_eq(bgn, w["bgn"]):
        return "bg-nodes-changed"
    return None


def expect_map(spec, phi):
    """mapped value of every mapping cell from the statement"""
    flat = spec["flat"]
    val = {s: phi[k] for k, s in enumerate(flat)}
    cs = spec["cstr"]
    if isinstance(cs, dict):
        for c in cs["rows"]:
            val[c] = sum((0 if isnan(cs["coef"][c][s]) else cs["coef"][c][s]) * val[s] for s in cs["cols"])
    return [[(val[c] if isinstance(c, str) else 0.0) for c in r] for r in spec["map"]]


def _close(a, b, tol=1e-10):
    a = np.asarray(a, float)
    b = np.asarray(b, float)
    return a.shape == b.shape and bool(np.all(np.abs(a - b) <= tol * (1 + np.abs(b))))


def spec_json(spec):
    s = {k: v for k, v in spec.items() if k != "names_obj"}
    return s


def _judge_lines(ctx, inp, which, spec, artists, pts):
    """the one-based `sensors lines` sheet where it is used: line (a, b) of the sheet is drawn between the a-th and the b-th
    displayed point, counted from one (the artists that follow are the three lines of the origin triad)"""
    sl = spec["opt"].get("sensors lines")
    rows = sl["rows"] if isinstance(sl, dict) else []
    segs = [np.column_stack([np.asarray(a, float) for a in ln._verts3d]) for ln in artists]
    good = len(segs) == len(rows) + 3
    for (a, b), seg in zip(rows, segs):
        good = good and seg.shape == (2, 3) and _close(seg[0], pts[a - 1]) and _close(seg[1], pts[b - 1])
    if not good:
        ctx.violation(f"plot-geo{which}-lines", f"plot_mode_geo{which}: line (a, b) of the one-based 'sensors lines' sheet is not drawn between the "
                      "a-th and the b-th displayed point", inp, observed=[g.tolist() for g in segs[: len(rows)]],
                      expected=[[list(map(float, pts[a - 1])), list(map(float, pts[b - 1]))] for a, b in rows])


def oracle_case(ctx, kind, spec, extra=None):
    """one oracle evaluation of the real code; `kind` selects the clause of the statement"""
    gen = _gen()
    extra = extra or {}
    which = 1 if spec["kind"] == "geo1" else 2
    build, judge = (build_fd1, judge_geo1) if which == 1 else (build_fd2, judge_geo2)
    fn = gen.check_on_geo1 if which == 1 else gen.check_on_geo2
    inp = {"kind": kind, "spec": spec_json(spec), "extra": extra}
    ctx.oracle_cases += 1
    fd = build(spec)

    def exc_sig(out, default):
        # one root cause, one sig: the optional 'constraints' sheet is looked up unconditionally
        if which == 2 and out == "KeyError" and "constraints" not in fd and "'constraints'" in LAST["msg"]:
            return "geo2-optional-constraints-KeyError"
        return default

    if kind in ("valid", "optional"):
        ok, out = run(fn, build(spec), ref_ind=spec["ref_ind"])
        if not ok:
            dropped = sorted(spec.get("drop", []))
            if kind == "optional" and dropped:
                sig = f"geo{which}-optional-{dropped[0].replace(' ', '_') if len(dropped) == 1 else 'subset'}-{out}"
            else:
                sig = f"geo{which}-valid-rejected-{out}"
            ctx.violation(exc_sig(out, sig), f"check_on_geo{which}: a well-formed table set (sheets present: {sorted(fd)}) raises {out}: {LAST['msg'][:80]}",
                          inp, observed=out, expected="geometry")
            return
        j = judge(spec, out)
        if j:
            ctx.violation(f"geo{which}-{j}", f"check_on_geo{which}: returned geometry differs from the statement ({j})", inp, observed=summarize((True, out)))
            return
        # the same tables define the same geometry again (a geometry is a function of the tables) and stay as they were
        fd2 = build(spec)
        snap = _snap(fd2)
        outs = [run(fn, dict(fd2), ref_ind=spec["ref_ind"]) for _ in range(2)]
        for n, (ok, out) in enumerate(outs):
            j = (judge(spec, out) if ok else f"raises-{out}")
            if j:
                ctx.violation(f"geo{which}-call{n + 1}-same-tables-{j}", f"check_on_geo{which}: call {n + 1} on the same tables does not give the geometry of the statement ({j})",
                              inp, observed=summarize((ok, out)))
                return
        if _modified(fd2, snap):
            ctx.violation(f"geo{which}-input-modified", f"check_on_geo{which} modifies the caller's tables {_modified(fd2, snap)}", inp, observed=_modified(fd2, snap))
    elif kind == "fault":
        ok, out = run(fn, build(spec), ref_ind=spec["ref_ind"])
        if ok or out != "ValueError":
            ctx.violation(exc_sig(out, f"geo{which}-fault-{spec['fault']}-{'accepted' if ok else out}"),
                          f"check_on_geo{which}: malformed tables ({spec['fault']}) " + ("produce a geometry" if ok else f"raise {out}") + " instead of ValueError",
                          inp, observed="accepted" if ok else out, expected="ValueError")
    elif kind in ("byfile", "byfile_fault"):
        # clause 1: the geometry defined "from tables as read from the Excel template" (the reader replaced by the tables)
        S = _setup_cls()
        ok, out = run(lambda: call_by_file(S, which, build(spec), spec["ref_ind"])[0])
        if kind == "byfile_fault":
            if ok or out != "ValueError":
                ctx.violation(exc_sig(out, f"def_geo{which}_by_file-fault-{spec['fault']}-{'accepted' if ok else out}"),
                              f"def_geo{which}_by_file: malformed tables ({spec['fault']}) " + ("produce a geometry" if ok else f"raise {out}") + " instead of ValueError",
                              inp, observed="accepted" if ok else out, expected="ValueError")
            return
        if not ok:
            ctx.violation(exc_sig(out, f"def_geo{which}_by_file-valid-rejected-{out}"),
                          f"def_geo{which}_by_file: a well-formed table set (sheets present: {sorted(fd)}) raises {out}: {LAST['msg'][:80]}",
                          inp, observed=out, expected="geometry")
            return
        j = judge(spec, out)
        if j:
            ctx.violation(f"def_geo{which}_by_file-{j}", f"def_geo{which}_by_file: the stored geometry differs from the statement ({j})", inp,
                          observed=summarize((True, out)))
    elif kind == "defgeo":
        S = _setup_cls()
        form, arrays = extra["form"], extra["arrays"]
        args = (defgeo1_args if which == 1 else defgeo2_args)(spec, form, arrays)
        if args["sens_names"] is None:
            ctx.oracle_cases -= 1
            return
        ok, out = run(lambda: call_defgeo(S, which, args, spec["ref_ind"])[1])
        if not ok:
            ctx.violation(f"def_geo{which}-argform-{out}",
                          f"def_geo{which} with documented argument forms (names as {form}, {'ndarrays' if arrays else 'DataFrames'}) raises {out} instead of defining the geometry",
                          inp, observed=out, expected="geometry")
            return
        j = judge(spec, out)
        if j:
            ctx.violation(f"def_geo{which}-{j}", f"def_geo{which}: geometry differs from the statement ({j})", inp, observed=summarize((True, out)))
            return
        # the caller's own objects, used to define the geometry, then to re-define it on the same setup
        snap = _snap(args)
        ok, so = run(lambda: call_defgeo(S, which, args, spec["ref_ind"], share=True))
        ok2, so2 = run(lambda: call_defgeo(S, which, args, spec["ref_ind"], share=True, obj=so[0])) if ok else (False, so)
        for n, (k, o) in enumerate(((ok, so), (ok2, so2))):
            j = (judge(spec, o[1]) if k else f"raises-{o}")
            if j:
                ctx.violation(f"def_geo{which}-redefine{n}-{j}", f"def_geo{which}: defining the geometry {'again ' if n else ''}from the caller's own tables does not give the geometry of the statement ({j})",
                              inp, observed=summarize((k, o[1] if k else o)))
                return
        if _modified(args, snap):
            ctx.violation(f"def_geo{which}-input-modified", f"def_geo{which} modifies the caller's arguments {_modified(args, snap)}", inp, observed=_modified(args, snap))
    elif kind == "reuse":
        # one session: both geometries of one structure from the same tables (shared line / background
        # tables), a geometry re-defined, a second setup object
        S = _setup_cls()
        spec2 = extra["spec2"]
        form, arrays = extra["form"], extra["arrays"]
        a1 = defgeo1_args(spec, form, arrays)
        a2 = defgeo2_args(spec2, "table", arrays)
        for k in ("sens_lines", "bg_nodes", "bg_lines", "bg_surf"):
            a2[k] = a1[k]  # the very same objects
        allargs = {**{"1." + k: v for k, v in a1.items()}, **{"2." + k: v for k, v in a2.items()}}
        snap = _snap(allargs)
        A, B = S(), S()
        steps = [("geo1-first", 1, A), ("geo2-after-geo1", 2, A), ("geo1-again", 1, A), ("geo2-other-object", 2, B), ("geo1-other-object", 1, B)]
        for name, w, obj in steps:
            if obj is B and name == "geo2-other-object" and (B.geo1 is not None or B.geo2 is not None):
                ctx.violation("reuse-fresh-object-has-geometry", "a new setup object already carries the geometry defined on another object", inp)
                return
            sp, ar = (spec, a1) if w == 1 else (spec2, a2)
            ok, so = run(lambda: call_defgeo(S, w, ar, sp["ref_ind"], share=True, obj=obj))
            j = ((judge_geo1 if w == 1 else judge_geo2)(sp, so[1]) if ok else f"raises-{so}")
            if j:
                ctx.violation(f"reuse-{name}-{j}", f"def_geo{w} ({name}; tables shared between the calls of one session): geometry differs from the statement ({j})",
                              inp, observed=summarize((ok, so[1] if ok else so)))
                return
        g = A.geo1
        j = judge_geo1(spec, (g.sens_names, g.sens_coord, g.sens_dir, g.sens_lines, g.bg_nodes, g.bg_lines, g.bg_surf))
        if j:
            ctx.violation(f"reuse-geo1-kept-{j}", "a defined geometry changed when other geometries were defined from the same tables", inp)
            return
        if _modified(allargs, snap):
            ctx.violation("reuse-input-modified", f"def_geo1/def_geo2 modify the caller's arguments {_modified(allargs, snap)}", inp, observed=_modified(allargs, snap))
    elif kind == "defgeo_fault":
        S = _setup_cls()
        form, arrays = extra["form"], extra["arrays"]
        args = (defgeo1_args if which == 1 else defgeo2_args)(spec, form, arrays)
        if args["sens_names"] is None:
            ctx.oracle_cases -= 1
            return
        ok, out = run(lambda: call_defgeo(S, which, args, spec["ref_ind"])[1])
        if ok or out != "ValueError":
            ctx.violation(f"def_geo{which}-fault-{spec['fault']}-{'accepted' if ok else out}",
                          f"def_geo{which}: malformed tables ({spec['fault']}; names as {form}, optional tables as {'ndarrays' if arrays else 'DataFrames'}"
                          + (", directions as DataFrame) " if spec["fault"] in LABEL_FAULTS else ") ")
                          + ("define a geometry" if ok else f"raise {out}") + " instead of ValueError",
                          inp, observed=summarize((True, out)) if ok else out, expected="ValueError")
    elif kind == "map":
        phi = extra["phi"]
        ok, out = run(fn, build(spec), ref_ind=spec["ref_ind"])
        if not ok:
            ctx.violation(exc_sig(out, f"geo2-valid-rejected-{out}"), f"check_on_geo2 raises {out} on a well-formed table set (sheets present: {sorted(fd)})", inp, observed=out)
            return
        margs = {"phi": np.array(phi), "names": out[0], "smap": out[2], "cstr": out[3]}
        msnap = _snap(margs)
        run(gen.dfphi_map_func, margs["phi"], out[0], out[2], cstrn=out[3])
        ok, m = run(gen.dfphi_map_func, margs["phi"], out[0], out[2], cstrn=out[3])  # second use of the same geometry
        if _modified(margs, msnap):
            ctx.violation("map-input-modified", f"dfphi_map_func modifies its arguments {_modified(margs, msnap)}", inp, observed=_modified(margs, msnap))
            return
        want = expect_map(spec, phi)
        if not ok:
            ctx.violation(f"map-raises-{m}", f"dfphi_map_func raises {m} on a checked geometry", inp, observed=m)
        elif not _close(m.to_numpy(), want):
            ctx.violation("map-value", "dfphi_map_func: a cell does not carry the sensor component / constraint combination / zero", inp,
                          observed=m.to_numpy().tolist(), expected=want)
    elif kind == "plot":
        import matplotlib.pyplot as plt

        S = _setup_cls()
        phi = extra["phi"]
        scale = extra["scale"]
        Phi = np.column_stack([np.zeros(len(phi)), np.array(phi)])
        args = (defgeo1_args if which == 1 else defgeo2_args)(spec, "table", False)
        ok, so = run(lambda: call_defgeo(S, which, args, spec["ref_ind"]))
        if not ok:
            ctx.violation(f"def_geo{which}-frames-{so}", f"def_geo{which} raises {so} on DataFrame arguments", inp, observed=so)
            return
        s = so[0]
        if which == 1 and any(isnan(c) for q in spec["flat"] for c in spec["coord"][q]):
            ctx.skipped += 1  # matplotlib drops NaN points: artist k would not be sensor k
            return
        try:
            if which == 1:
                fig, ax = s.plot_mode_geo1(_res(Phi), 2, scaleF=scale)
                flat = spec["flat"]
                base = np.array([[0.0 if isnan(c) else c for c in spec["coord"][q]] for q in flat], float)
                nanrow = [any(isnan(c) for c in spec["coord"][q]) for q in flat]
                tip = base + np.array([spec["dir"][q] for q in flat], float) * np.array(phi)[:, None] * scale
                off = np.column_stack([np.asarray(a, float) for a in ax.collections[0]._offsets3d])
                segs = [np.column_stack([np.asarray(a, float) for a in ln._verts3d]) for ln in ax.lines[: len(flat)]]
                good = len(segs) == len(flat)
                for k in range(len(flat)):
                    if nanrow[k] or not good:
                        continue
                    good = good and _close(off[k], base[k]) and _close(segs[k][0], base[k]) and _close(segs[k][1], tip[k])
                if not good:
                    ctx.violation("plot-geo1-coords", "plot_mode_geo1: arrow k is not drawn from sensor k's coordinates along its direction times its mode-shape component", inp)
                elif not any(nanrow):
                    _judge_lines(ctx, inp, 1, spec, ax.lines[len(flat):], base)
            else:
                fig, ax = s.plot_mode_geo2_mpl(_res(Phi), 2, scaleF=scale, color="red")
                w = expect_geo2(spec)
                want = np.array(spec["pts"], float) + np.array(expect_map(spec, phi), float) * scale * np.array(w["sign"], float)
                off = np.column_stack([np.asarray(a, float) for a in ax.collections[0]._offsets3d])
                if not _close(off, want):
                    ctx.violation("plot-geo2-coords", "plot_mode_geo2_mpl: displayed point != coordinate + mapped value x sign", inp,
                                  observed=off.tolist(), expected=want.tolist())
                else:
                    _judge_lines(ctx, inp, 2, spec, ax.lines, want)
        finally:
            plt.close("all")
        # drawing does not change the geometry
        g = s.geo1 if which == 1 else s.geo2
        out = ((g.sens_names, g.sens_coord, g.sens_dir, g.sens_lines, g.bg_nodes, g.bg_lines, g.bg_surf) if which == 1 else
               (g.sens_names, g.pts_coord, g.sens_map, g.cstrn, g.sens_sign, g.sens_lines, g.sens_surf, g.bg_nodes, g.bg_lines, g.bg_surf))
        j = judge(spec, out)
        if j:
            ctx.violation(f"plot-geo{which}-geometry-changed-{j}", f"plot_mode_geo{which}: the geometry is no longer the defined one after drawing ({j})", inp)


def oracle(ctx, scale):
    rng = ctx.rng
    # (1) valid sets (row permutations, optional present/absent/empty, single and multi setup) and every single fault
    for it in range(ctx.n(60, 900) * scale):
        # (a duplicated row label is not a malformation of the statement: correspondence only)
        for which, ggen, tags, corrupt in ((1, gen_geo1, [t for t in CORR1 if t != "dup_label"], corrupt1), (2, gen_geo2, CORR2, corrupt2)):
            spec = ggen(rng)
            oracle_case(ctx, "valid", spec)
            ctx.nontrivial.add(("oracle-valid", which, len(spec["flat"]), spec["ref_ind"] is None, tuple(sorted(spec["opt"]))))
            for tg in (tags if (ctx.thorough or it % 6 == 0) else [tags[it % len(tags)], tags[(it * 7 + 3) % len(tags)]]):
                cs = corrupt(spec, tg, rng)
                if cs is None:
                    ctx.skipped += 1
                    continue
                oracle_case(ctx, "fault", cs)
                ctx.nontrivial.add(("oracle-fault", which, tg))
                ctx.count(f"oracle_fault_geo{which}_{tg}")
            # optional sheets: every one omitted alone, and a random subset
            optional = (["sensors lines", "BG nodes", "BG lines", "BG surfaces"] if which == 1 else
                        ["constraints", "sensors sign", "sensors lines", "sensors surfaces", "BG nodes", "BG lines", "BG surfaces"])
            subsets = [[k] for k in optional] if (ctx.thorough or it % 4 == 0) else [[optional[it % len(optional)]]]
            subsets.append([k for k in optional if rng.random() < 0.5])
            subsets.append(list(optional))
            for sub in subsets:
                s2 = copy.deepcopy(spec)
                s2["drop"] = sub
                if which == 2 and "constraints" in sub and isinstance(s2["cstr"], dict):
                    # without the sheet the mapping may no longer name constraints
                    cn = set(s2["cstr"]["rows"])
                    s2["map"] = [[0 if c in cn else c for c in r] for r in s2["map"]]
                    s2["cstr"] = None
                if "BG nodes" in sub:
                    s2["drop"] = sorted(set(sub) | {"BG lines", "BG surfaces"})
                oracle_case(ctx, "optional", s2)
                ctx.count(f"oracle_optional_geo{which}")
    # (1b) the same through the file entry points (clause 1), the reader replaced by the generated tables
    for it in range(ctx.n(30, 400) * scale):
        which = 1 + it % 2
        spec = (gen_geo1 if which == 1 else gen_geo2)(rng, multi=(it % 4 < 2))
        if which == 2 and it % 4 == 1:
            _distinct_index_sheets(spec, rng)
        oracle_case(ctx, "byfile", spec)
        ctx.nontrivial.add(("oracle-byfile", which, spec["ref_ind"] is None, tuple(sorted(spec["opt"]))))
        ctx.count(f"oracle_byfile{which}")
        tags = [t for t in CORR1 if t != "dup_label"] if which == 1 else CORR2
        cs = (corrupt1 if which == 1 else corrupt2)(spec, tags[(it // 2) % len(tags)], rng)
        if cs is None:
            ctx.skipped += 1
        else:
            oracle_case(ctx, "byfile_fault", cs)
            ctx.nontrivial.add(("oracle-byfile-fault", which, cs["fault"]))
            ctx.count(f"oracle_byfile{which}_fault_{cs['fault']}")
    # (2) documented argument forms of def_geo1 / def_geo2
    for it in range(ctx.n(40, 400) * scale):
        which = 1 + it % 2
        spec = (gen_geo1 if which == 1 else gen_geo2)(rng, multi=(it % 4 < 2))
        form = [f for f in FORMS if names_form(spec, f) is not None][(it // 4) % 2 if spec["ref_ind"] is not None else (it // 4) % 3]
        arrays = (it // 2) % 2 == 0
        oracle_case(ctx, "defgeo", spec, {"form": form, "arrays": arrays})
        ctx.nontrivial.add(("oracle-defgeo", which, form, arrays))
        ctx.count(f"oracle_defgeo{which}_{form}_{'arrays' if arrays else 'frames'}")
        # the same single faults as for check_on_geo1/2, through the class-level entry point
        tags = DEF_FAULT1 if which == 1 else DEF_FAULT2
        todo = tags if (ctx.thorough and it % 5 == 0) else [tags[(it // 2) % len(tags)], tags[(it // 2 + 1 + (it // 2) // len(tags)) % len(tags)]]
        if which == 1 and it % 4 == 1:
            todo = list(todo) + ["index_order", "index_labels"]
        for tg in todo:
            cs = (corrupt1 if which == 1 else corrupt2)(spec, tg, rng)
            if cs is None:
                ctx.skipped += 1
                continue
            oracle_case(ctx, "defgeo_fault", cs, {"form": form, "arrays": arrays})
            ctx.nontrivial.add(("oracle-defgeo-fault", which, tg, arrays))
            ctx.count(f"oracle_defgeo{which}_fault_{tg}")
    # (2b) one session: geometry 1 and geometry 2 of one structure from shared tables, re-definition, two setups
    for it in range(ctx.n(16, 200) * scale):
        spec = gen_geo1(rng, multi=(it % 3 == 0))
        spec2 = gen_geo2(rng, multi=False)
        nn = max(1, min(len(spec["flat"]), spec2["P"]))
        if it % 4 != 3:  # mostly with every shared table present
            nodes, m = gen_nodes(rng)
            spec["opt"].update({"sensors lines": gen_idx_sheet(rng, nn, 2), "BG nodes": nodes,
                                "BG lines": gen_idx_sheet(rng, m, 2), "BG surfaces": gen_idx_sheet(rng, m, 3)})
        spec2["opt"] = {**{k: v for k, v in spec2["opt"].items() if k == "sensors surfaces"},
                        **{k: v for k, v in spec["opt"].items() if k in ("sensors lines", "BG nodes", "BG lines", "BG surfaces")}}
        form = [f for f in FORMS if names_form(spec, f) is not None][it % 2]
        oracle_case(ctx, "reuse", spec, {"spec2": spec_json(spec2), "form": form, "arrays": it % 4 == 1})
        ctx.nontrivial.add(("oracle-reuse", form, it % 4 == 1, tuple(sorted(spec["opt"]))))
        ctx.count("oracle_reuse_" + ("arrays" if it % 4 == 1 else "frames"))
    # (3) mapping of mode shapes
    for it in range(ctx.n(60, 900) * scale):
        spec, phi = gen_mapcase(rng)
        if it % 5 == 0 and not isinstance(spec["cstr"], dict):
            spec["cstr"] = None
            spec["drop"] = ["constraints"]
        oracle_case(ctx, "map", spec, {"phi": phi})
        ctx.nontrivial.add(("oracle-map", len(spec["flat"]), isinstance(spec["cstr"], dict), spec["ref_ind"] is None))
    # (4) displayed coordinates (Agg)
    for it in range(ctx.n(10, 80) * scale):
        which = 1 + it % 2
        spec = (gen_geo1 if which == 1 else gen_geo2)(rng)
        spec["opt"] = {k: v for k, v in spec["opt"].items() if k in ("sensors lines",) and v != "empty" and v["index"]}
        if which == 1:  # matplotlib drops NaN points from a scatter: keep the drawn points countable
            spec["coord"] = {q: [0.0 if isnan(c) else c for c in v] for q, v in spec["coord"].items()}
        phi = [round(rng.uniform(-2, 2), 3) for _ in spec["flat"]]
        if which == 2 and rng.random() < 0.6:
            # row k of the mapping belongs to row k of the points table, whatever the tables' index labels are: a points
            # table kept in another order of labels (re-sorted, filtered) must be drawn point by point all the same
            lab = list(range(1, spec["P"] + 1))
            rng.shuffle(lab)
            spec["pts_index"] = lab
            ctx.count("oracle_plot_geo2_points_labels_permuted")
        oracle_case(ctx, "plot", spec, {"phi": phi, "scale": rng.choice([1, 2, 5])})
        ctx.count(f"oracle_plot_geo{which}")


# ----------------------------------------------------------------------------- replay
def _unjson(x):
    if isinstance(x, dict):
        return {k: _unjson(v) for k, v in x.items()}
    if isinstance(x, list):
        return [_unjson(v) for v in x]
    if x == "nan":
        return NAN
    return x


def replay(rec):
    v = rec["violation"]
    inp = _unjson(v["input"])
    print("replaying", v["sig"], "-", v["what"])

    class C:
        oracle_cases = 0
        skipped = 0

        def __init__(self):
            self.vs = []

        def violation(self, sig, what, *a, **k):
            self.vs.append(sig)
            print("VIOLATION reproduced:", sig, "-", what)

    c = C()
    oracle_case(c, inp["kind"], inp["spec"], inp.get("extra"))
    if not c.vs:
        print("not reproduced (the code now satisfies the statement on this input)")
    return 1 if c.vs else 0
