"""C16 — interactive pole picking (support/sel_from_plot.py, SelFromPlot) hands over exactly the
picked (frequency, order) pairs.  The dialog is built WITHOUT Tk and its real handlers are called."""
import itertools
import math
from collections import Counter
from types import SimpleNamespace as NS

import numpy as np

from common import R, Ro, fl

from common import all_pre_build as pre_build  # noqa: E402,F401

LEAN_MODULES = ["PyomaVerif.Props.C16", "PyomaVerif.Props.C16Extract", "PyomaVerif.Mutants.C16", "PyomaVerif.Mutants.C16Extract", "PyomaVerif.Props.WiringMpe", "PyomaVerif.Props.WiringClass", "PyomaVerif.Props.WiringCalls", "PyomaVerif.Props.WiringPick", "PyomaVerif.Props.WiringDialog"]
THEOREMS = [
    # call-site wiring of the class layer, regenerated from /repo on every run (translate_wiring.py)
    "PV.WiringMpe.C16_handover_wiring",
    "PV.WiringMpe.C16_handover_wiring_efdd",
    "PV.WiringMpe.C16_from_plot_stores",
    "PV.WiringClass.C16_from_plot_inherited",
    "PV.WiringCalls.C16_from_plot_calls",
    # the dialog's own wiring (support/sel_from_plot.py: event connections, per-instance state, hand-over tuple), same translator
    "PV.WiringPick.C16_connections_stab",
    "PV.WiringPick.C16_connections_fdd",
    "PV.WiringPick.C16_events_exact",
    "PV.WiringPick.C16_connected_before_mainloop",
    "PV.WiringPick.C16_closing",
    "PV.WiringPick.C16_instance_state",
    "PV.WiringPick.C16_no_class_state",
    "PV.WiringPick.C16_result_tuple",
    "PV.WiringPick.C16_step_wired_stab",
    "PV.WiringPick.C16_step_wired_fdd",
    "PV.WiringPick.C16_init_wired",
    "PV.WiringPick.C16_dialog_wired_stab",
    "PV.WiringPick.C16_dialog_wired_fdd",
    # what the dialog searches, who may write the selection, the button codes, the sort per plot type — regenerated from
    # support/sel_from_plot.py + the SelFromPlot(...) sites of algorithms/*.py by translate_dialog.py (Generated/Dialog.lean)
    "PV.WiringDialog.C16_pick_source",
    "PV.WiringDialog.C16_state_writers",
    "PV.WiringDialog.C16_state_writers_nonvacuous",
    "PV.WiringDialog.C16_button_branches",
    "PV.WiringDialog.C16_click_from_source_stab",
    "PV.WiringDialog.C16_click_from_source_fdd",
    "PV.WiringDialog.C16_apply_role_from_source_stab",
    "PV.WiringDialog.C16_apply_role_from_source_fdd",
    "PV.WiringDialog.C16_sort_per_plot",
    "PV.C16.C16_refine",
    "PV.C16.C16_handover",
    "PV.C16.C16_fdd",
    "PV.C16.C16_sorted",
    "PV.C16.C16_pick",
    "PV.C16.C16_pick_fdd",
    "PV.C16.C16_select_adds_one",
    "PV.C16.C16_deselect_one",
    "PV.C16.C16_deselect_nearest",
    "PV.C16.C16_no_shift_noop",
    "PV.C16.C16_click_order",
    "PV.C16.C16_click_order_eq",
    # hand-over to extraction, over C11's models ssiMpe / plscfMpe (Props/C16Extract.lean)
    "PV.C16.C16_selected_were_picked",
    "PV.C16.C16_pick_row",
    "PV.C16.C16_extract",
    "PV.C16.C16_extract_fields",
    "PV.Pick.Mut.knobs_default",
    "PV.C16.Mut.prefix_sort_breaks_pairing",
    "PV.C16.Mut.prefix_sort_deselect_wrong_pair",
    "PV.C16.Mut.pop_one_list_breaks_refine",
    "PV.C16.Mut.last_nearest_breaks_refine",
    "PV.C16.Mut.no_shift_gate_breaks_refine",
    "PV.C16.Mut.prefix_sort_extracts_nothing",
]
RULE = (
    "correspondence: a SelFromPlot instance built with object.__new__ (attributes as __init__ sets them, Agg figure) "
    "receives events through its real handlers on_key_press/on_key_release/on_click_SSI/on_click_FDD; after EVERY event "
    "(shift_is_held, sel_freq, pole_ind|freq_ind, exception class) is compared exactly with the Lean model, for ALL "
    "histories up to length 3 (quick) / 4 (thorough) over a 20-event alphabet (shift press/release, 3 buttons x 6 "
    "click points) on a 3x4 pole table with one NaN cell, started with and without the modifier held, for the SSI, "
    "pLSCF and FDD dialogs (redraw stubbed), plus random longer histories over random tables incl. malformed events "
    "(click outside the axes, other buttons/keys, all-NaN columns) with the real redraw; hand-over: the real SSI_mpe/"
    "pLSCF_mpe called as mpe_from_plot calls them with the dialog's (sel_freq, pole_ind) vs C11's models ssiMpe/plscfMpe "
    "(Fn, Xi, Phi, covariances, order_out, exception class; tables with one distinct value per cell); menu[*]: histories in which the "
    "dialog's MENU commands (show / hide unstable poles as the registered lambdas run them, help, save figure) are interleaved with the "
    "canvas events, on tables whose finite poles are partly labelled unstable (Lab == 0), started with hide_poles 0 and 1, real redraw: "
    "the model sees the canvas events only, so a menu command must leave (shift_is_held, sel_freq, pole_ind|freq_ind) untouched and a pick "
    "must not depend on Lab / hide_poles. oracle: list-of-pairs transition relation written from the property text on the same enumeration and "
    "on random histories of <= 6 mouse actions, each followed by the real SSI_mpe / pLSCF_mpe on the handed-over pairs (Fn, order_out "
    "and every mode's damping, shape, covariances from one cell holding the picked frequency at the picked order); permuted click orders; mpe_from_plot end to end with only Tk patched "
    "(events dispatched through the real matplotlib callbacks), two dialogs in a row per algorithm object, three "
    "algorithms per session. The displayed band (freqlim) is varied everywhere (default / lower edge above the first "
    "lines), frequencies are scaled by 2**-27..2**27, and the algorithm's result arrays are monitored to come back "
    "unmodified. distinct = distinct (dialog, selection size, "
    "button, shift, exception) situations"
)
EXTRA_TRUSTED = [
    "Tk main loop, matplotlib event dispatch and pixel->data transforms (events are injected at the handler level; "
    "the end-to-end run goes through matplotlib's CallbackRegistry with an Agg canvas)",
    "redraw (plot_stab / plot_svPSD) does not touch the selection lists (exercised un-stubbed on a sample; as far as writes through "
    "`self` go it is now the obligation PV.WiringDialog.C16_state_writers over the regenerated table — what matplotlib does with the "
    "lists it is handed stays trusted)",
]
ASSUMPTIONS = [
    "event.xdata/ydata are numpy float64 (as matplotlib delivers them) or both None outside the axes",
    "pole tables contain finite values or NaN (no inf); click coordinates are finite",
    "np.argsort(kind='stable'), np.argmin/np.nanargmin first-minimum rule mirrored by sortByKey/argminV/nanargminV "
    "(validated by the correspondence)",
]

STAB = ("SSI", "pLSCF")


# ----------------------------------------------------------------------------- headless dialog
def _sfp_cls():
    from pyoma2.support.sel_from_plot import SelFromPlot

    return SelFromPlot


def mk_algo_stab(Fn, lab=None):
    Fn = np.asarray(Fn, float)
    return NS(
        fs=40.0,
        result=NS(Fn_poles=Fn, Lab=np.where(np.isnan(Fn), 0.0, 1.0) if lab is None else np.asarray(lab, float)),
        run_params=NS(ordmin=0, ordmax=Fn.shape[1] - 1, step=1),
    )


def mk_algo_fdd(freq, seed=0):
    freq = np.asarray(freq, float)
    g = np.random.default_rng(seed)
    return NS(fs=40.0, result=NS(freq=freq, S_val=np.abs(g.standard_normal((2, 2, len(freq)))) + 1.0))


def mk_dialog(plot, algo, redraw="stub", freqlim=None):
    """SelFromPlot without Tk: the attributes __init__ and _initialize_gui set, on an Agg canvas.
    redraw: 'stub' (plot_* replaced by a counter), 'nodraw' (real plot_*, canvas.draw_idle no-op), 'full'."""
    from matplotlib.backends.backend_agg import FigureCanvasAgg
    from matplotlib.figure import Figure

    s = object.__new__(_sfp_cls())
    s.algo = algo
    s.plot = plot
    s.fs = algo.fs
    s.freqlim = freqlim if freqlim is not None else (0.0, algo.fs / 2)  # as __init__
    s.shift_is_held = False
    s.sel_freq = []
    if plot in STAB:
        s.show_legend = 0
        s.hide_poles = 1
        s.pole_ind = []
    else:
        s.freq_ind = []
    s.redraws = 0
    if redraw == "stub":
        s.fig = None
        s.ax2 = None

        def _stub(*a, **k):
            s.redraws += 1
            assert len(s.sel_freq) == len(_ind(s))  # ax.plot(sel_freq, ind) would raise otherwise

        s.plot_stab = _stub
        s.plot_svPSD = _stub
    else:
        s.fig = Figure(figsize=(6, 3), tight_layout=True)
        FigureCanvasAgg(s.fig)
        s.ax2 = s.fig.add_subplot(111)
        s.ax2.grid()
        if redraw == "nodraw":
            s.fig.canvas.draw_idle = lambda: None
        if plot in STAB:
            s.plot_stab(plot)
        else:
            s.plot_svPSD()
    return s


def _ind(s):
    return s.pole_ind if s.plot in STAB else s.freq_ind


def set_state(s, st):
    s.shift_is_held = st[0]
    s.sel_freq = list(st[1])
    if s.plot in STAB:
        s.pole_ind = list(st[2])
    else:
        s.freq_ind = list(st[2])


def get_state(s):
    return (s.shift_is_held, list(s.sel_freq), list(_ind(s)))


def obs(s):
    """(shift, [float], [int]) — the hand-over `result` is (sel_freq, pole_ind) / (sel_freq, None)"""
    return (bool(s.shift_is_held), [float(v) for v in s.sel_freq], [int(v) for v in _ind(s)])


# events: ("kp", key) ("kr", key) ("click", button, None | (x, y))
def ev_json(e):
    if e[0] in ("kp", "kr"):
        return {"t": e[0], "key": "None" if e[1] is None else e[1]}
    return {"t": "click", "button": e[1], "pos": None if e[2] is None else [R(e[2][0]), R(e[2][1])]}


def apply_event(s, e):
    """call the real handler; returns the exception class name or None"""
    try:
        if e[0] == "kp":
            s.on_key_press(NS(key=e[1], name="key_press_event"))
        elif e[0] == "kr":
            s.on_key_release(NS(key=e[1], name="key_release_event"))
        else:
            pos = e[2]
            ev = NS(
                name="button_press_event",
                button=e[1],
                key=None,
                inaxes=None if pos is None else s.ax2,
                xdata=None if pos is None else np.float64(pos[0]),
                ydata=None if pos is None else np.float64(pos[1]),
            )
            if s.plot in STAB:
                s.on_click_SSI(ev, s.plot)
            else:
                s.on_click_FDD(ev)
    except Exception as ex:  # noqa: BLE001
        return type(ex).__name__
    return None


def plot_json(plot, data):
    if plot in STAB:
        Fn = np.asarray(data, float)
        return {"plot": "stab", "nrow": Fn.shape[0], "ncol": Fn.shape[1], "table": [[Ro(v) for v in row] for row in Fn]}
    return {"plot": "fdd", "freq": [R(v) for v in data]}


def state_json(st):
    return {"shift": bool(st[0]), "sel_freq": [R(v) for v in st[1]], "ind": [int(v) for v in st[2]]}


def same(model_state, o, raised):
    return (
        model_state["shift"] == o[0]
        and [fl(v) for v in model_state["sel_freq"]] == o[1]
        and model_state["ind"] == o[2]
        and model_state["raised"] == raised
    )


# ----------------------------------------------------------------------------- fixed small case
TABLE = [[1.0, 1.25, 1.5, 1.0], [3.0, float("nan"), 3.25, 3.5], [5.0, 5.5, 5.25, 5.0]]
FREQ = [0.0, 0.75, 1.5, 2.25, 3.0, 3.75, 4.5, 5.25]
# six click points: plain, nearest-order tie (y = 1.5), nearest-pole tie (4.25 at order 3), outside the order range
POINTS = [(0.875, 0.25), (5.375, 1.0), (3.125, 2.25), (1.125, 3.0), (4.25, 3.75), (6.0, 1.5)]
ALPHABET = [("kp", "shift"), ("kr", "shift")] + [("click", b, p) for b in (1, 2, 3) for p in POINTS]
INITS = [(False, [], []), (True, [], [])]
# displayed band (`freqlim` of mpe_from_plot) per initial state: default, and a band starting above the
# first frequency line / lowest pole (the property text does not depend on the band)
BANDS = [None, (1.0, 4.5)]


def dialogs():
    return [("SSI", TABLE), ("pLSCF", TABLE), ("FDD", FREQ)]


def walk(s, alphabet, depth, visit, path=None):
    """depth-first pre-order over all histories; `visit(path, event, raised)` returns False to prune"""
    path = [] if path is None else path
    if depth == 0:
        return
    st = get_state(s)
    for e in alphabet:
        set_state(s, st)
        r = apply_event(s, e)
        path.append(e)
        if visit(path, e, r) is not False:
            walk(s, alphabet, depth - 1, visit, path)
        path.pop()
    set_state(s, st)


# ----------------------------------------------------------------------------- random cases
def rand_scale(rng):
    """power of two (exact in floating point) between ~1e-8 and ~1e8; mostly 1"""
    return 1.0 if rng.random() < 0.5 else 2.0 ** rng.randint(-27, 27)


def rand_band(rng, scale=1.0):
    """`freqlim`: default, or a band whose lower edge is above the lowest lines"""
    if rng.random() < 0.35:
        return None
    lo = rng.choice([0.0, 0.3, 0.5, 1.0, 1.7, 2.5, 4.0]) * scale
    return (lo, lo + rng.choice([1.0, 3.0, 8.0, 20.0]) * scale)


def rand_table(rng, scale=1.0):
    nr, nc = rng.randint(1, 5), rng.randint(1, 6)
    pool = [k / 8 * scale for k in range(0, 97)]
    Fn = [[(float("nan") if rng.random() < 0.3 else rng.choice(pool)) for _ in range(nc)] for _ in range(nr)]
    if rng.random() < 0.25:  # an all-NaN order
        j = rng.randrange(nc)
        for row in Fn:
            row[j] = float("nan")
    if rng.random() < 0.3 and nc > 1:  # the same frequency at two orders
        a, b = rng.sample(range(nc), 2)
        i = rng.randrange(nr)
        if not math.isnan(Fn[i][a]):
            Fn[rng.randrange(nr)][b] = Fn[i][a]
    return Fn


def rand_freq(rng, scale=1.0):
    n = rng.randint(1, 12)
    df = rng.choice([0.25, 0.5, 0.375]) * scale
    return [k * df for k in range(n)]


def rand_event(rng, plot, data, malformed, scale=1.0):
    u = rng.random()
    if u < 0.12:
        return ("kp", "shift")
    if u < 0.18:
        return ("kr", "shift")
    if malformed and u < 0.24:
        return (rng.choice(["kp", "kr"]), rng.choice(["a", "control", "shift+a", None, "Shift", "escape"]))
    b = rng.choice([1, 1, 1, 2, 3]) if not (malformed and rng.random() < 0.1) else rng.choice([8, 9, 0])
    if malformed and rng.random() < 0.08:
        return ("click", b, None)
    if plot in STAB:
        nc = len(data[0])
        return ("click", b, (rng.randint(-16, 13 * 16) / 16 * scale, rng.randint(-6, 4 * nc + 6) / 4))
    return ("click", b, (rng.randint(-16, 6 * 16) / 16 * scale, rng.randint(-40, 40) / 4))


def rand_history(rng, plot, data, n, malformed, shifted=0.85, scale=1.0):
    evs = [("kp", "shift")] if rng.random() < shifted else []
    while len(evs) < n:
        evs.append(rand_event(rng, plot, data, malformed, scale))
    return evs


# ----------------------------------------------------------------------------- correspondence
def correspondence(ctx):
    depth = ctx.n(3, 4)
    # (1) ALL histories up to `depth`, each dialog, with and without the modifier initially held
    for plot, data in dialogs():
        algo = mk_algo_stab(data) if plot in STAB else mk_algo_fdd(data)
        for init, band in zip(INITS, BANDS):
            s = mk_dialog(plot, algo, "stub", band)
            set_state(s, init)
            pj = plot_json(plot, data)
            model = ctx.model("pick_tree", alphabet=[ev_json(e) for e in ALPHABET], depth=depth, init=state_json(init), **pj)
            it = iter(model)
            n_nodes = [0]

            def visit(path, e, r, it=it, plot=plot, s=s, init=init, n_nodes=n_nodes):
                m = next(it)
                o = obs(s)
                n_nodes[0] += 1
                ok = same(m, o, r)
                ctx.corr(
                    f"handlers[{plot}]",
                    ok,
                    {"plot": plot, "init": init, "events": list(path)} if not ok else None,
                    m,
                    {"state": o, "raised": r},
                    (len(o[1]), e[0], e[1] if e[0] == "click" else e[1], o[0], r),
                )
                return True

            walk(s, ALPHABET, depth, visit)
            if n_nodes[0] != len(model):
                ctx.corr(f"handlers[{plot}]", False, {"plot": plot, "init": init}, len(model), n_nodes[0])
            ctx.count(f"tree_nodes_{plot}", n_nodes[0])
    # (2) random longer histories over random tables, malformed events included
    n_rand = ctx.n(150, 3000)
    n_real = ctx.n(6, 60)  # with the real redraw code (slow: matplotlib)
    for k in range(n_rand):
        plot = ctx.rng.choice(["SSI", "pLSCF", "FDD"])
        sc = rand_scale(ctx.rng) if k >= n_real else 1.0
        band = rand_band(ctx.rng, sc)
        data = rand_table(ctx.rng, sc) if plot in STAB else rand_freq(ctx.rng, sc)
        evs = rand_history(ctx.rng, plot, data, ctx.rng.randint(4, 14), malformed=True, scale=sc)
        if sc != 1.0:
            ctx.count("scaled_histories")
        if band is not None and band[0] > 0:
            ctx.count("band_above_zero")
        if k % 10 == 9:  # long, pick-heavy, few distinct frequencies: > 16 entries, many equal keys in the sort
            if plot in STAB:
                data = [[ctx.rng.choice([1.0, 2.0, 2.0, 3.5, float("nan")]) * sc for _ in range(5)] for _ in range(4)]
            evs = [("kp", "shift")] + [
                ("click", ctx.rng.choice([1, 1, 1, 1, 2, 3]), (ctx.rng.randint(0, 64) / 16 * sc, ctx.rng.randint(-2, 20) / 4))
                for _ in range(ctx.rng.randint(25, 45))
            ]
            ctx.count("long_histories")
        mode = "stub"
        if k < n_real:
            mode = "full" if k % 3 == 0 else "nodraw"
            evs = evs[:8]
        algo = mk_algo_stab(data) if plot in STAB else mk_algo_fdd(data, k)
        s = mk_dialog(plot, algo, mode, band)
        model = ctx.model("pick_replay", events=[ev_json(e) for e in evs], **plot_json(plot, data))
        for i, e in enumerate(evs):
            r = apply_event(s, e)
            o = obs(s)
            ok = same(model[i], o, r)
            ctx.corr(
                f"handlers[{plot}]",
                ok,
                {"plot": plot, "data": data, "band": band, "events": evs[: i + 1]} if not ok else None,
                model[i],
                {"state": o, "raised": r},
                ("rand", len(o[1]), e[0], e[1], o[0], r),
            )
            if r:
                ctx.count(f"raised_{r}")
            if not ok:
                break
        ctx.count(f"random_histories_{mode}")
        if ok:
            # the ABSTRACT dialog of the refinement theorem (C16_refine: list of (frequency, order) pairs in ascending frequency),
            # executed by the driver, against the real dialog's final state: ties the SPEC, not only the state machine, to the code
            spec = ctx.model("pick_spec", events=[ev_json(e) for e in evs], **plot_json(plot, data))
            o = obs(s)
            sok = (spec["shift"] == o[0] and [fl(q[0]) for q in spec["pairs"]] == o[1] and [int(q[1]) for q in spec["pairs"]] == o[2])
            ctx.corr(f"spec[{plot}]", sok, {"plot": plot, "data": data, "band": band, "events": evs} if not sok else None,
                     spec, {"state": o}, ("spec", len(o[1]), o[0]))
        if k == 0:
            ctx.sample({"plot": plot, "data": data, "events": evs, "final": obs(s)})
        # (3) hand-over to extraction (list-of-orders branch of SSI_mpe / pLSCF_mpe)
        if plot in STAB and len(s.sel_freq) == len(s.pole_ind):
            _corr_mpe(ctx, plot, data, s)
        if mode != "stub":
            import matplotlib.pyplot as plt

            plt.close("all")
    _corr_menu(ctx)


# ----------------------------------------------------------------------------- menu commands, unstable poles, hide_poles
def apply_menu(s, m):
    """run a menu command of the real dialog as `_initialize_gui` registers it; returns the exception class or None"""
    import os
    import tempfile

    import pyoma2.support.sel_from_plot as sfp

    try:
        if m[1] == "show":  # "Show unstable poles": lambda: (self.toggle_hide_poles(0), self.toggle_legend(1))
            s.toggle_hide_poles(0), s.toggle_legend(1)
        elif m[1] == "hide":  # "Hide unstable poles"
            s.toggle_hide_poles(1), s.toggle_legend(0)
        elif m[1] == "help":
            had = getattr(sfp.tk, "messagebox", None)
            sfp.tk.messagebox = NS(showinfo=lambda *a, **k: None)
            try:
                s.show_help()
            finally:
                if had is None:
                    del sfp.tk.messagebox
                else:
                    sfp.tk.messagebox = had
        elif m[1] == "save":
            cwd = os.getcwd()
            with tempfile.TemporaryDirectory() as d:
                os.chdir(d)
                try:
                    s.save_this_figure()
                finally:
                    os.chdir(cwd)
    except Exception as ex:  # noqa: BLE001
        return type(ex).__name__
    return None


def _corr_menu(ctx):
    """(4) histories with MENU commands between the canvas events, on tables whose cells are partly labelled unstable
    (Lab == 0 on finite poles), started with hide_poles 0 and 1, real redraw: the model sees the canvas events only —
    a menu command must leave (shift_is_held, sel_freq, pole_ind | freq_ind) exactly as they were, and a pick must not
    depend on the labels or on what is displayed."""
    import matplotlib.pyplot as plt

    for k in range(ctx.n(24, 400)):
        plot = ctx.rng.choice(["SSI", "pLSCF", "SSI", "FDD"])
        data = rand_table(ctx.rng) if plot in STAB else rand_freq(ctx.rng)
        hide = ctx.rng.choice([0, 1])
        if plot in STAB:
            Fn = np.asarray(data, float)
            lab = np.where(np.isnan(Fn), 0.0, np.array([[float(ctx.rng.random() < 0.5) for _ in row] for row in data]))
            algo = mk_algo_stab(data, lab)
        else:
            algo = mk_algo_fdd(data, k)
        s = mk_dialog(plot, algo, "nodraw", rand_band(ctx.rng))
        if plot in STAB:
            s.hide_poles = hide
        menus = ["show", "hide", "help", "save"] if plot in STAB else ["help", "save"]
        evs = []
        for e in rand_history(ctx.rng, plot, data, ctx.rng.randint(4, 9), malformed=False, shifted=0.95):
            evs.append(e)
            if ctx.rng.random() < 0.45:
                evs.append(("menu", ctx.rng.choice(menus)))
        canvas = [e for e in evs if e[0] != "menu"]
        model = ctx.model("pick_replay", events=[ev_json(e) for e in canvas], **plot_json(plot, data))
        i = -1
        last = {"shift": False, "sel_freq": [], "ind": [], "raised": None}
        for j, e in enumerate(evs):
            if e[0] == "menu":
                r = apply_menu(s, e)
                want = dict(last, raised=None)
                key = ("menu", e[1], min(len(last["sel_freq"]), 3), bool(getattr(s, "hide_poles", None)))
            else:
                i += 1
                r = apply_event(s, e)
                want = last = model[i]
                key = ("canvas", e[1], len(last["sel_freq"]), bool(getattr(s, "hide_poles", None)))
                if plot in STAB and e[1] == 1 and r is None and s.shift_is_held and len(s.sel_freq):
                    # was the picked pole one the chart does not display?
                    hidden = [lab[a, b] == 0 for a in range(Fn.shape[0]) for b in set(s.pole_ind) if Fn[a, b] in s.sel_freq]
                    if any(hidden) and s.hide_poles:
                        ctx.count("menu_pick_near_hidden_pole")
            o = obs(s)
            ok = same(want, o, r)
            ctx.corr(
                f"menu[{plot}]",
                ok,
                {"plot": plot, "data": data, "hide_poles": hide, "lab": lab.tolist() if plot in STAB else None, "events": evs[: j + 1]} if not ok else None,
                want,
                {"state": o, "raised": r},
                key,
            )
            if e[0] == "menu":
                ctx.count(f"menu_{e[1]}")
            if not ok:
                break
        ctx.count(f"menu_histories_hide{hide}" if plot in STAB else "menu_histories_fdd")
        plt.close("all")


def mpe_tables(Fn, with_cov, d=2):
    """damping / mode-shape / covariance tables for a pole table: every cell has its own dyadic values (a read
    from another row or column shows), NaN where the pole is NaN (as the real tables are masked together)."""
    Fn = np.asarray(Fn, float)
    nr, nc = Fn.shape
    idx = np.arange(nr * nc, dtype=float).reshape(nr, nc)
    nan = np.isnan(Fn)
    Xi = np.where(nan, np.nan, (1 + idx) / 4096)
    Phi = np.empty((nr, nc, d), dtype=complex)
    for k in range(d):
        Phi[:, :, k] = (1 + idx * d + k) / 64 + 1j * ((k + 1) / 8 - idx / 32)
    Phi[nan, :] = complex(np.nan, np.nan)
    cov = None
    if with_cov:
        pc = np.stack([(7 + idx * d + k) / 16384 for k in range(d)], axis=2)
        pc[nan, :] = np.nan
        cov = {"fn": np.where(nan, np.nan, (3 + idx) / 8192), "xi": np.where(nan, np.nan, (5 + 2 * idx) / 8192), "phi": pc}
    return Xi, Phi, cov


def mpe_case(plot, data, sel_freq, order, rtol, with_cov):
    """the call `mpe_from_plot` makes: SSI_mpe / pLSCF_mpe(sel_freq, Fn_poles, Xi_poles, Phi_poles, order=pole_ind, Lab=None, rtol)"""
    Fn = np.asarray(data, float)
    Xi, Phi, cov = mpe_tables(Fn, with_cov and plot == "SSI")
    return {"freq": [float(v) for v in sel_freq], "Fn": Fn, "Xi": Xi, "Phi": Phi, "Lab": None, "order": [int(v) for v in order],
            "rtol": rtol, "deltaf": 0.05, "cov": cov, "kind": "list"}


RTOLS = [1e-2, 5e-2, 1e-3, 0.0]


def _corr_mpe(ctx, plot, data, s):
    """hand-over: the real SSI_mpe / pLSCF_mpe on the dialog's (sel_freq, pole_ind) against C11's models
    `ssiMpe` / `plscfMpe` (ops ssi_mpe / plscf_mpe) — the functions `C16_extract` is stated about; all
    outputs (Fn, Xi, Phi, covariances, order_out, exception class)."""
    from c11 import call_plscf, call_ssi, model_inp, same_out

    case = mpe_case(plot, data, s.sel_freq, s.pole_ind, ctx.rng.choice(RTOLS), ctx.rng.random() < 0.5)  # SFP.result
    which = "ssi" if plot == "SSI" else "plscf"
    impl = (call_ssi if which == "ssi" else call_plscf)(case)
    inp = model_inp(case, which)
    model = ctx.model("ssi_mpe" if which == "ssi" else "plscf_mpe", **inp)
    ok = same_out(model, impl)
    ctx.corr(f"mpe_list[{plot}]", ok, inp if not ok else None, model, impl,
             ("mpe", len(case["freq"]), case["cov"] is not None, impl.get("exc")))
    ctx.count(f"mpe_list_{plot}_{'raised' if 'exc' in impl else len(impl['fn'])}")


# ----------------------------------------------------------------------------- oracle (from the statement)
class Truth:
    """The property text as a checker of transitions on the MULTISET of selected (frequency, order) pairs
    (FDD: of selected frequency lines).  No list order, no tie-breaking rule is assumed: where two poles
    or orders are equally near, either is accepted."""

    def __init__(self, plot, data):
        self.plot = plot
        self.stab = plot in STAB
        self.data = np.asarray(data, float)
        self.sel = Counter()
        self.shift = False

    def observed(self, s):
        if self.stab:
            return Counter(zip((float(v) for v in s.sel_freq), (int(v) for v in s.pole_ind)))
        return Counter(float(v) for v in s.sel_freq)

    def freq_of(self, item):
        return item[0] if self.stab else item

    def candidates(self, x, y):
        """acceptable items for a pick at (x, y)"""
        if self.stab:
            nc = self.data.shape[1]
            dy = [abs(j - y) for j in range(nc)]
            out = set()
            for o in [j for j in range(nc) if dy[j] == min(dy)]:
                col = [f for f in self.data[:, o] if not math.isnan(f)]
                if col:
                    dm = min(abs(f - x) for f in col)
                    out |= {(float(f), o) for f in col if abs(f - x) == dm}
                else:
                    out.add(None)  # nothing to pick at that order
            return out
        dm = min(abs(f - x) for f in self.data)
        return {float(f) for f in self.data if abs(f - x) == dm}

    def check(self, e, s, raised):
        """returns (sig, what) or None; updates the expected selection"""
        if self.stab and len(s.sel_freq) != len(s.pole_ind):
            return ("lists-unequal-length", f"sel_freq has {len(s.sel_freq)} entries, pole_ind {len(s.pole_ind)}")
        now = self.observed(s)
        prev = self.sel
        if e[0] in ("kp", "kr"):
            if e[1] == "shift":
                self.shift = e[0] == "kp"
            if now != prev:
                return ("selection-changed-by-key", "a key event changed the selection")
            return None
        b, pos = e[1], e[2]
        action = b in (1, 2, 3) and self.shift
        if not action:
            if now != prev:
                return ("selection-changed-without-modifier", f"button {b} without the modifier changed the selection")
            return None
        added, removed = now - prev, prev - now
        na, nrm = sum(added.values()), sum(removed.values())
        if b == 1:
            cand = self.candidates(*pos)
            if na == 0 and nrm == 0:
                if None in cand:
                    return None
                return ("pick-ignored", f"pick at {pos} selected nothing")
            if nrm == 0 and na == 1 and next(iter(added)) in cand:
                self.sel = now
                return None
            # classify
            if self.stab:
                fnow, fprev = Counter(p[0] for p in now.elements()), Counter(p[0] for p in prev.elements())
                onow, oprev = Counter(p[1] for p in now.elements()), Counter(p[1] for p in prev.elements())
                for c in cand:
                    if c is not None and fnow == fprev + Counter([c[0]]) and onow == oprev + Counter([c[1]]):
                        return (
                            "pairs-depend-on-click-order",
                            f"after picking {c} the frequencies and the orders are the right collections but are paired "
                            f"wrongly: handed over {sorted(now.elements())}, selected {sorted((prev + Counter([c])).elements())}",
                        )
            return ("pick-wrong-pole", f"pick at {pos}: added {sorted(added.elements())}, removed {sorted(removed.elements())}, acceptable {cand}")
        # deselections
        if not prev:
            if now != prev:
                return ("deselect-on-empty", "deselection on an empty selection changed it")
            return None
        if na != 0 or nrm != 1:
            return (
                "deselect-not-one-entry",
                f"button {b}: removed {sorted(removed.elements())}, added {sorted(added.elements())} (exactly one selected entry must go)",
            )
        if b == 2:
            gone = next(iter(removed))
            x = pos[0]
            dm = min(abs(self.freq_of(p) - x) for p in prev.elements())
            if abs(self.freq_of(gone) - x) != dm:
                return ("deselect-nearest-not-nearest", f"middle button at x={x} removed {gone}, nearest distance is {dm}")
        self.sel = now
        return None


def _snapshot(algo):
    r = algo.result
    return {k: np.array(getattr(r, k), copy=True) for k in ("Fn_poles", "Lab", "freq", "S_val") if hasattr(r, k)}


def _inputs_untouched(snap, algo):
    """the dialog only reads the algorithm's results: they must come back bit-identical"""
    for k, v in snap.items():
        w = np.asarray(getattr(algo.result, k))
        if w.shape != v.shape or not np.array_equal(w, v, equal_nan=True):
            return k
    return None


def _oracle_history(ctx, plot, data, evs, s, seen, band=None):
    snap = _snapshot(s.algo)
    ok = _oracle_history0(ctx, plot, data, evs, s, seen, band)
    bad = _inputs_untouched(snap, s.algo)
    ctx.oracle_cases += 1
    if bad:
        _report(ctx, seen, ("dialog-modified-algorithm-result", f"result.{bad} of the algorithm was modified by the dialog"), plot, data, evs, s, None, band)
        return False
    return ok


def _oracle_history0(ctx, plot, data, evs, s, seen, band=None):
    t = Truth(plot, data)
    t.shift = bool(s.shift_is_held)
    t.sel = t.observed(s)
    for i, e in enumerate(evs):
        r = apply_event(s, e)
        v = t.check(e, s, r)
        ctx.oracle_cases += 1
        if v:
            _report(ctx, seen, v, plot, data, evs[: i + 1], s, None, band)
            return False
    return True


def _report(ctx, seen, v, plot, data, evs, s, init=None, band=None):
    ctx.count("oracle_" + v[0])
    if seen.get(v[0], 0) < 2:
        seen[v[0]] = seen.get(v[0], 0) + 1
        ctx.violation(
            v[0],
            f"{plot}: {v[1]}",
            {"kind": "history", "plot": plot, "data": data, "init": init, "band": band, "events": [list(e) for e in evs]},
            observed={"sel_freq": [float(x) for x in s.sel_freq], "ind": [int(x) for x in _ind(s)]},
        )


def extract_check(plot, data, sel_freq, order, rtol, with_cov):
    """'the modes extracted afterwards are those poles', from the statement: the real SSI_mpe / pLSCF_mpe called as
    mpe_from_plot calls them must return one mode per handed-over pair, in that order: Fn == sel_freq,
    order_out == pole_ind, and damping, shape and covariances of mode k all read from ONE cell (r, pole_ind[k]) with
    Fn_poles[r, pole_ind[k]] == sel_freq[k] (if several rows hold that frequency any of them is accepted).
    Returns (sig, what) or None."""
    from c11 import call_plscf, call_ssi

    case = mpe_case(plot, data, sel_freq, order, rtol, with_cov)
    got = (call_ssi if plot == "SSI" else call_plscf)(case)
    name = "SSI_mpe" if plot == "SSI" else "pLSCF_mpe"
    if "exc" in got:
        return ("extract-raises", f"{name} raised {got['exc']} on the handed-over pairs {list(zip(case['freq'], case['order']))}")
    if got["order_out"] != {"arr": case["order"]}:
        return ("extract-order_out-differs", f"{name}: order_out = {got['order_out']}, handed over {case['order']}")
    if got["fn"] != case["freq"]:
        return ("extract-fn-differs", f"{name}: Fn = {got['fn']}, handed over {case['freq']}")
    Fn, Xi, Phi, cov = case["Fn"], case["Xi"], case["Phi"], case["cov"]
    n = len(case["freq"])
    if len(got["xi"]) != n or len(got["phi"]) != n or (cov is not None and not (len(got["fn_cov"]) == len(got["xi_cov"]) == len(got["phi_cov"]) == n)):
        return ("extract-lists-unequal-length", f"{name}: {n} modes handed over, lengths returned "
                f"{[len(got[k]) for k in ('fn', 'xi', 'phi', 'fn_cov', 'xi_cov', 'phi_cov')]}")
    for k, (f, o) in enumerate(zip(case["freq"], case["order"])):
        rows = [r for r in range(Fn.shape[0]) if Fn[r, o] == f]
        fits = [
            r for r in rows
            if got["xi"][k] == Xi[r, o] and list(got["phi"][k]) == list(Phi[r, o, :])
            and (cov is None or (got["fn_cov"][k] == cov["fn"][r, o] and got["xi_cov"][k] == cov["xi"][r, o]
                                 and list(got["phi_cov"][k]) == list(cov["phi"][r, o, :])))
        ]
        if not fits:
            return ("extract-foreign-or-mixed-pole",
                    f"{name}: mode {k} (picked {f} at order {o}, rows {rows}) has xi={got['xi'][k]}, phi={got['phi'][k]}"
                    + (f", covariances {got['fn_cov'][k]}, {got['xi_cov'][k]}, {got['phi_cov'][k]}" if cov is not None else "")
                    + " - not the entries of one of those cells")
    return None


def _oracle_extract(ctx, seen, plot, data, s):
    if plot not in STAB or len(s.sel_freq) != len(s.pole_ind):
        return
    rtol, with_cov = ctx.rng.choice(RTOLS), ctx.rng.random() < 0.5
    sel_freq, order = [float(v) for v in s.sel_freq], [int(v) for v in s.pole_ind]
    v = extract_check(plot, data, sel_freq, order, rtol, with_cov)
    ctx.oracle_cases += 1
    ctx.count(f"oracle_extract_{plot}_{min(len(sel_freq), 3)}")
    ctx.nontrivial.add(("extract", plot, len(sel_freq), with_cov))
    if v:
        ctx.count("oracle_" + v[0])
        if seen.get(v[0], 0) < 2:
            seen[v[0]] = seen.get(v[0], 0) + 1
            ctx.violation(v[0], f"{plot}: {v[1]}",
                          {"kind": "extract", "plot": plot, "data": data, "sel_freq": sel_freq, "order": order, "rtol": rtol, "with_cov": with_cov})


def oracle(ctx, scale):
    seen = {}
    depth = ctx.n(3, 4)
    # (a) the exhaustive enumeration, checked against the statement
    for plot, data in dialogs():
        algo = mk_algo_stab(data) if plot in STAB else mk_algo_fdd(data)
        for init, band in zip(INITS, BANDS):
            s = mk_dialog(plot, algo, "stub", band)
            set_state(s, init)
            truths = [Truth(plot, data)]
            truths[0].shift = init[0]

            def visit(path, e, r, s=s, truths=truths, plot=plot, data=data, init=init):
                del truths[len(path) :]
                t = truths[-1]
                t2 = Truth(plot, data)
                t2.sel, t2.shift = t.sel, t.shift
                v = t2.check(e, s, r)
                ctx.oracle_cases += 1
                ctx.nontrivial.add(("oracle", plot, len(s.sel_freq), e[0], e[1], t2.shift))
                if v:
                    _report(ctx, seen, v, plot, data, list(path), s, init, s.freqlim)
                    return False
                truths.append(t2)
                return True

            walk(s, ALPHABET, depth, visit)
    # (b) random histories with up to 6 mouse actions over arbitrary tables
    for k in range(ctx.n(300, 6000) * scale):
        plot = ctx.rng.choice(["SSI", "pLSCF", "FDD"])
        sc = rand_scale(ctx.rng)
        band = rand_band(ctx.rng, sc)
        data = rand_table(ctx.rng, sc) if plot in STAB else rand_freq(ctx.rng, sc)
        evs = rand_history(ctx.rng, plot, data, ctx.rng.randint(2, 9), malformed=False, scale=sc)
        algo = mk_algo_stab(data) if plot in STAB else mk_algo_fdd(data, k)
        s = mk_dialog(plot, algo, "stub", band)
        if _oracle_history(ctx, plot, data, evs, s, seen, band):
            _oracle_extract(ctx, seen, plot, data, s)  # "... and the modes extracted afterwards are those poles"
        ctx.count("oracle_random_histories")
    # (c) "irrespective of the order in which the poles were clicked": permuted pick sequences
    for k in range(ctx.n(60, 800) * scale):
        plot = ctx.rng.choice(["SSI", "pLSCF"])
        sc = rand_scale(ctx.rng)
        band = rand_band(ctx.rng, sc)
        data = rand_table(ctx.rng, sc)
        npk = ctx.rng.randint(2, 4)
        clicks = [rand_event(ctx.rng, plot, data, False, sc) for _ in range(12)]
        clicks = [("click", 1, c[2]) for c in clicks if c[0] == "click"][:npk]
        # keep away from ties: the designated pole must be unique
        t = Truth(plot, data)
        if any(len(t.candidates(*c[2])) != 1 or None in t.candidates(*c[2]) for c in clicks) or len(clicks) < 2:
            ctx.skipped += 1
            continue
        want = Counter(next(iter(t.candidates(*c[2]))) for c in clicks)
        for perm in itertools.permutations(clicks):
            s = mk_dialog(plot, mk_algo_stab(data), "stub", band)
            evs = [("kp", "shift")] + list(perm) + [("kr", "shift")]
            for e in evs:
                apply_event(s, e)
            got = Counter(zip((float(v) for v in s.sel_freq), (int(v) for v in s.pole_ind)))  # SFP.result
            ctx.oracle_cases += 1
            if got != want:
                _report(
                    ctx, seen,
                    ("pairs-depend-on-click-order", f"click order {[c[2] for c in perm]} hands over {sorted(got.elements())}, picked {sorted(want.elements())}"),
                    plot, data, evs, s, None, band,
                )
                break
    # (d) mpe_from_plot end to end: real algorithms, real SelFromPlot.__init__, real matplotlib dispatch
    for k in range(ctx.n(2, 12) * scale):
        _end_to_end(ctx, seen, k)


# ----------------------------------------------------------------------------- end to end
def _synthetic(seed):
    from scipy import signal

    g = np.random.default_rng(seed)
    fs, N = 50.0, 3000
    y = np.zeros((N, 3))
    for f, z in [(3.0, 0.02), (7.0, 0.02), (12.0, 0.02)]:
        w = 2 * np.pi * f
        b, a = signal.bilinear([w * w], [1, 2 * z * w, w * w], fs)
        y += np.outer(signal.lfilter(b, a, g.standard_normal(N)), g.standard_normal(3))
    return y + 0.05 * g.standard_normal(y.shape), fs


class _Script:
    """replays scripted clicks through matplotlib's own event objects and callback registry"""

    def __init__(self, clicks):
        self.clicks = clicks  # list of ("kp"/"kr", key) | ("click", button, (x, y))
        self.canvas = None
        self.delivered = []

    def run(self):
        from matplotlib.backend_bases import KeyEvent, MouseButton, MouseEvent

        canvas = self.canvas
        ax = canvas.figure.axes[0]
        for e in self.clicks:
            if e[0] in ("kp", "kr"):
                name = "key_press_event" if e[0] == "kp" else "key_release_event"
                canvas.callbacks.process(name, KeyEvent(name, canvas, e[1]))
                self.delivered.append(e)
            else:
                px, py = ax.transData.transform(e[2])
                ev = MouseEvent("button_press_event", canvas, px, py, MouseButton(e[1]))
                if ev.inaxes is not ax:
                    continue
                canvas.callbacks.process("button_press_event", ev)
                self.delivered.append(("click", e[1], (float(ev.xdata), float(ev.ydata))))


def _patched_dialog(script):
    """context managers replacing ONLY Tk: the rest of SelFromPlot.__init__/_initialize_gui runs as is"""
    import unittest.mock as um

    from matplotlib.backends.backend_agg import FigureCanvasAgg

    class Canvas(FigureCanvasAgg):
        def get_tk_widget(self):
            return um.MagicMock()

    def canvas_factory(fig, root=None, **kw):
        c = Canvas(fig)
        script.canvas = c
        return c

    class Root(um.MagicMock):
        def mainloop(self_inner):
            script.run()

    return [
        um.patch("pyoma2.support.sel_from_plot.FigureCanvasTkAgg", canvas_factory),
        um.patch("pyoma2.support.sel_from_plot.NavigationToolbar2Tk", um.MagicMock()),
        um.patch("tkinter.Tk", Root),
        um.patch("tkinter.Menu", um.MagicMock()),
    ]


def _end_to_end(ctx, seen, k):
    import contextlib

    import matplotlib.pyplot as plt

    from pyoma2.algorithms import FDD, SSIcov, pLSCF
    from pyoma2.setup import SingleSetup

    y, fs = _synthetic(ctx.rng.getrandbits(31))
    ss = SingleSetup(y, fs=fs)
    algs = {"SSI": SSIcov(name="SSI", br=12, ordmax=16), "pLSCF": pLSCF(name="pLSCF", ordmax=12, nxseg=256), "FDD": FDD(name="FDD", nxseg=256)}
    ss.add_algorithms(*algs.values())
    for plot, alg in algs.items():
        ss.run_by_name(plot)
        for rnd in range(2):  # the same algorithm object is used for two dialogs in a row
            res = alg.result
            stab = plot in STAB
            if stab:
                Fn = np.asarray(res.Fn_poles, float)
                cols = [j for j in range(Fn.shape[1]) if (~np.isnan(Fn[:, j]) & (Fn[:, j] < fs / 2 - 1) & (Fn[:, j] > 1.0)).any()]
                if len(cols) < 2:
                    ctx.skipped += 1
                    continue
                picks = []
                for o in ctx.rng.sample(cols, min(len(cols), ctx.rng.randint(2, 4))):
                    col = [f for f in Fn[:, o] if not math.isnan(f) and 1.0 < f < fs / 2 - 1]
                    f = ctx.rng.choice(col)
                    picks.append((f + ctx.rng.uniform(-0.02, 0.02), o + ctx.rng.uniform(-0.3, 0.3)))
            else:
                picks = [(ctx.rng.uniform(1.0, fs / 2 - 2), 0.0) for _ in range(ctx.rng.randint(2, 4))]
            clicks = [("kp", "shift")] + [("click", 1, p) for p in picks]
            # one deselect-nearest of a picked pole and a re-pick, one unshifted click
            if len(picks) > 2 and ctx.rng.random() < 0.5:
                clicks += [("click", 2, picks[0])]
            clicks += [("kr", "shift"), ("click", 1, picks[0]), ("click", 3, picks[0])]
            script = _Script(clicks)
            # displayed band: non-default (lower edge above the first lines) on the first run, then mixed
            band = (ctx.rng.uniform(0.3, 0.9), fs / 2 - ctx.rng.uniform(0.0, 0.5)) if (k == 0 or ctx.rng.random() < 0.6) else None
            script.band = band
            snap = _snapshot(alg)
            handed = {}
            with contextlib.ExitStack() as st:
                for cm in _patched_dialog(script):
                    st.enter_context(cm)
                if not stab:
                    import unittest.mock as um

                    from pyoma2.functions import fdd as fddmod

                    real = fddmod.FDD_mpe

                    def spy(*a, **kw):
                        import inspect

                        bound = inspect.signature(real).bind(*a, **kw)  # however the caller passes it (position or keyword)
                        handed["sel_freq"] = [float(v) for v in bound.arguments["sel_freq"]]
                        return real(*a, **kw)

                    st.enter_context(um.patch("pyoma2.functions.fdd.FDD_mpe", spy))
                try:
                    ss.mpe_from_plot(plot, freqlim=band)
                except Exception as ex:  # noqa: BLE001
                    ctx.oracle_cases += 1
                    _report_e2e(ctx, seen, "e2e-exception", f"{plot}: mpe_from_plot raised {type(ex).__name__}: {ex}", plot, script)
                    plt.close("all")
                    continue
            plt.close("all")
            bad = _inputs_untouched(snap, alg)
            if bad:
                _report_e2e(ctx, seen, "dialog-modified-algorithm-result", f"{plot}: result.{bad} was modified by mpe_from_plot", plot, script)
            # expected selection from the statement, on the coordinates matplotlib actually delivered
            data = Fn if stab else np.asarray(res.freq, float)
            t = Truth(plot, data)
            sel = Counter()
            shift = False
            tie = False
            for e in script.delivered:
                if e[0] in ("kp", "kr"):
                    shift = (e[0] == "kp") if e[1] == "shift" else shift
                elif shift and e[1] == 1:
                    c = t.candidates(*e[2])
                    tie |= len(c) != 1
                    sel[next(iter(c))] += 1
                elif shift and e[1] == 2 and sel:
                    d = {p: abs(t.freq_of(p) - e[2][0]) for p in sel}
                    dm = min(d.values())
                    tie |= sum(1 for p in d if d[p] == dm) != 1
                    sel[min(d, key=d.get)] -= 1
                    sel = +sel
                elif shift and e[1] == 3 and sel:
                    tie = True  # which entry goes is not fixed by the statement
            if tie or not sel:
                ctx.skipped += 1
                continue
            ctx.oracle_cases += 1
            ctx.count(f"e2e_{plot}")
            if stab:
                got = Counter(zip((float(v) for v in np.asarray(alg.result.Fn).reshape(-1)), (int(v) for v in np.asarray(alg.result.order_out).reshape(-1))))
                if got != sel:
                    _report_e2e(
                        ctx, seen, "e2e-extracted-modes-differ",
                        f"{plot}: mpe_from_plot extracted (Fn, order_out) = {sorted(got.elements())}, the poles picked are {sorted(sel.elements())}",
                        plot, script,
                    )
            else:
                got = Counter(handed.get("sel_freq", []))
                if got != sel:
                    _report_e2e(
                        ctx, seen, "e2e-handed-lines-differ",
                        f"FDD: FDD_mpe received {sorted(got.elements())}, the lines picked are {sorted(sel.elements())}", plot, script,
                    )


def _report_e2e(ctx, seen, sig, what, plot, script):
    ctx.count("oracle_" + sig)
    if seen.get(sig, 0) < 1:
        seen[sig] = 1
        ctx.violation(sig, what, {"kind": "e2e", "plot": plot, "band": getattr(script, "band", None), "delivered": [list(e) for e in script.delivered]})


# ----------------------------------------------------------------------------- replay
def replay(rec):
    v = rec["violation"]
    inp = v["input"]
    print("replaying", v["sig"], "-", v["what"])
    if inp.get("kind") == "extract":
        data = [[float("nan") if (x == "nan" or x is None) else x for x in row] for row in inp["data"]]
        res = extract_check(inp["plot"], data, inp["sel_freq"], inp["order"], inp["rtol"], inp["with_cov"])
        if res:
            print("VIOLATION reproduced:", res[0], "-", res[1])
            return 1
        print("no violation")
        return 0
    if inp.get("kind") != "history":
        print("end-to-end record: events delivered were", inp.get("delivered"))
        print("re-run `./check C16` with the same VERIF_SEED to reproduce")
        return 0
    plot = inp["plot"]
    data = [[float("nan") if x == "nan" else x for x in row] for row in inp["data"]] if plot in STAB else inp["data"]
    algo = mk_algo_stab(data) if plot in STAB else mk_algo_fdd(data)
    s = mk_dialog(plot, algo, "stub", tuple(inp["band"]) if inp.get("band") else None)
    if inp.get("init"):
        set_state(s, inp["init"])
    t = Truth(plot, data)
    t.shift = bool(s.shift_is_held)
    rc = 0
    for e in inp["events"]:
        e = tuple(tuple(x) if isinstance(x, list) else x for x in e)
        r = apply_event(s, e)
        res = t.check(e, s, r)
        print(" ", e, "->", obs(s), "raised", r)
        if res:
            print("VIOLATION reproduced:", res[0], "-", res[1])
            rc = 1
            break
    return rc
