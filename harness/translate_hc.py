"""Python-AST -> Lean translator for the hard-criteria part of the run() methods (C09/C10).

Reads algorithms/ssi.py and algorithms/plscf.py of the CURRENT working tree and emits
lean/PyomaVerif/Generated/HcProgs.lean.  Fails closed: any statement that touches a
tracked variable and is outside the grammar aborts the translation (Fail).

What "touches" means (`Tr.inert`): a statement (or a sub-expression of a modelled statement that the
model ignores, e.g. the third argument of `gen.applymask`) is skipped only if it can neither re-bind,
nor mutate in place, nor create an alias/view of a protected variable:

* protected = the tracked tables, masks, lists and the label table (mutable objects), the threshold /
  flag variables read from `hc`, and the `hc` dictionary itself;
* no protected name may occur in Store/Del context (plain, augmented, annotated, walrus, `for`/`with`/
  `except ... as` targets, comprehension variables, `del`, `global`/`nonlocal`);
* a tracked *object* may be mentioned in Load context only where nothing can be written through the
  mention and no reference to it can escape: `X.shape/.ndim/.size/.dtype`, `X is [not] None`, and as the
  single positional argument of a short list of pure functions (`len`, `np.isnan`, `np.sum`, ...).
  Everything else -- `X[...] = v`, `X[...] *= v`, `X.fill(v)`, `np.putmask(X, ...)`, `np.copyto(X, ...)`,
  `Y = X`, `Y = X[:, :k]`, `foo(X)`, `[X, ...]` outside the list grammar, `for t in (X, Y): ...` -- fails;
* `hc` may only be read as `hc["key"]`; any other `.hc` attribute access fails;
* nested functions / lambdas / classes that mention a name which is protected at any time fail
  (a closure could write the variable later), as do `exec`, `eval`, `locals`, `vars`, `globals`;
* a `return` / `yield` inside a skipped statement fails (the modelled statements are read as straight-line code);
  statements after the `return` of the result, a second pole computation / `SC_apply` / binding of `hc`, re-binding
  of `gen`, `np`, `self`, `len`, ... fail.

One in-place form is modelled instead of refused: `X[np.logical_not(m)] = np.nan` with `X` a tracked table and `m` a
tracked mask is `Stmt.blank X m` (the `np.where(m, X, nan)` of `applymask`, written into the same object).  Because
the model has value semantics, every list snapshot that still holds the mutated object is marked stale and any later
use of it fails.  NOT modelled, on purpose: `X[~m] = np.nan` / `np.invert(m)` -- four of the five masks of the library
(`HC_damp`, `HC_cov`, both of `HC_phi_comp`) are 0/1 INTEGER arrays, for which `~m` is the bitwise complement (-1/-2) and
the subscript an integer (row) index, not a boolean mask; the model's masks are Boolean and cannot tell the difference
(found by the C09 oracle on a scratch tree that used `~mask2`)."""
import ast
import os

CRIT1 = {"HC_conj": "conj", "HC_damp": "damp", "HC_cov": "cov"}
THR = {"xi_max": "Thr.xiMax", "mpc_lim": "Thr.mpcLim", "mpd_lim": "Thr.mpdLim", "cov_max": "Thr.covMax"}
POLE_FUNCS = {
    ("ssi", "SSI_poles"): ["Tbl.fn", "Tbl.xi", "Tbl.phi", "Tbl.lam", "Tbl.fncov", "Tbl.xicov", "Tbl.phicov"],
    ("plscf", "pLSCF_poles"): ["Tbl.fn", "Tbl.xi", "Tbl.phi", "Tbl.lam"],
}
CLASSES = [("ssi", "SSIdat"), ("ssi", "SSIcov"), ("ssi", "SSIdat_MS"), ("ssi", "SSIcov_MS"), ("plscf", "pLSCF"), ("plscf", "pLSCF_MS")]


SAFE_ATTRS = {"shape", "ndim", "size", "dtype", "nbytes", "itemsize"}
# pure functions of ONE positional argument whose result shares no memory with it (a second positional argument of a
# ufunc is `out`); keywords restricted to PURE_KW
PURE_NP = {"isnan", "isfinite", "count_nonzero", "sum", "nansum", "any", "all", "shape", "ndim", "size", "nanmax", "nanmin"}
PURE_BUILTIN = {"len", "type", "id"}
PURE_KW = {"axis", "keepdims"}
DENY_NAMES = {"exec", "eval", "locals", "vars", "globals", "setattr", "delattr", "__import__"}
NAN_EXPRS = {"np.nan", "np.NaN", "np.NAN", "numpy.nan", "float('nan')", "math.nan"}


class Fail(Exception):
    pass


def _name(n):
    if isinstance(n, ast.Name):
        return n.id
    raise Fail(f"not a plain name: {ast.unparse(n)}")


def _names(node):
    if isinstance(node, (ast.Tuple, ast.List)):
        return [_name(e) for e in node.elts]
    return [_name(node)]


def _is_call(v, mod=None, fn=None):
    return (
        isinstance(v, ast.Call)
        and isinstance(v.func, ast.Attribute)
        and isinstance(v.func.value, ast.Name)
        and (mod is None or v.func.value.id == mod)
        and (fn is None or v.func.attr == fn)
    )


def _assigned(st):
    out = set()
    for n in ast.walk(st):
        if isinstance(n, ast.Name) and isinstance(n.ctx, (ast.Store, ast.Del)):
            out.add(n.id)
        elif isinstance(n, (ast.Global, ast.Nonlocal)):
            out |= set(n.names)
        elif isinstance(n, ast.ExceptHandler) and n.name:
            out.add(n.name)
        elif isinstance(n, ast.alias):
            out.add((n.asname or n.name).split(".")[0])
        elif isinstance(n, (ast.FunctionDef, ast.AsyncFunctionDef, ast.ClassDef)):
            out.add(n.name)
        elif hasattr(ast, "MatchAs") and isinstance(n, (ast.MatchAs, ast.MatchStar)) and n.name:
            out.add(n.name)
        elif hasattr(ast, "MatchMapping") and isinstance(n, ast.MatchMapping) and n.rest:
            out.add(n.rest)
    return out


def _parents(node):
    par = {}
    for p in ast.walk(node):
        for ch in ast.iter_child_nodes(p):
            par[ch] = p
    return par


RESERVED = {"np", "gen", "ssi", "plscf", "self"} | PURE_BUILTIN


class Tr:
    def __init__(self):
        self.stmts = []  # (guards, lean stmt string)
        self.init = []  # (var, Tbl)
        self.tracked = set()
        self.lists = set()
        self.thr = {}  # variable -> Thr constructor
        self.flags = {}  # variable -> hc key (e.g. hc_conj -> conj)
        self.hcvar = None
        self.ret = None
        self.lab = None
        self.pole_seen = False
        self.tblof = {}  # canonical variable -> unfiltered table it (a filtered version of it) holds
        self.listelts = {}  # list variable -> canonical element variables
        self.alias = {}  # local name -> canonical variable (helper inlining); identity at the top level
        self.prefix = ""  # non-empty while a helper body is being inlined
        self.helpers = {}  # name -> FunctionDef of module-level functions / methods of the class
        self.depth = 0
        self.nstmt = 0
        self.pending_result = None  # (name, constructor call, statement counter): `res = ResultCls(...)` directly followed by `return res`
        self.helper_ret = None
        self.inplace = set()  # caller variables overwritten in place by conditional rebindings inside a helper
        self.poisoned = set()  # ... that the caller did NOT re-bind from the helper's results: any later use fails closed
        self.np_ok = True  # the module binds `np` by `import numpy as np` only
        self.gen_sig = {}  # gen function -> parameter names (from functions/gen.py of the tree), for keyword arguments
        self.rp_names = set()  # local names that stand for self.run_params (single assignment `rp = self.run_params`)
        self.ever = set()  # every LOCAL name (per function scope: (scope id, name)) that stood for a protected variable
        self.scopes = []  # FunctionDefs whose bodies were translated (run + inlined helpers), for the closure check
        self.nbind = 0
        self.version = {}  # canonical variable -> ids of the bindings that may be the current one (object identity)
        self.listsnap = {}  # list variable -> [(element variable, binding id)] of the objects the list may hold
        self.stale = set()  # list variables that still hold an object mutated in place afterwards
        self.scope = None

    # ------------------------------------------------------------------ names
    def canon(self, name):
        """canonical variable of a local name, None for a name that cannot stand for a caller variable"""
        if name in self.alias:
            return self.alias[name]
        return None if self.prefix else name

    def kind(self, c):
        if c is None:
            return None
        if c in self.tracked:
            return "obj"
        if c in self.thr or c in self.flags:
            return "scalar"
        if self.hcvar is not None and c == self.hcvar:
            return "hc"
        return None

    def protected(self, name):
        return self.kind(self.canon(name)) is not None or (not self.prefix and self.kind(name) is not None)

    def r(self, name):
        """canonical variable a local name stands for"""
        c = self.alias.get(name, name)
        if c in self.poisoned and not self.prefix:
            raise Fail(f"{name}: conditionally rebound inside a helper and used by the caller afterwards without being re-bound")
        if c in self.stale:
            raise Fail(f"{name}: list that still holds a table which was blanked in place after the list was built")
        return c

    def forget(self, c, guards=()):
        """`c` is about to be (re)bound by a modelled statement: nothing known about its previous value survives"""
        self.thr.pop(c, None)
        self.flags.pop(c, None)
        self.lists.discard(c)
        self.listelts.pop(c, None)
        self.listsnap.pop(c, None)
        self.stale.discard(c)
        self.tblof.pop(c, None)
        if self.hcvar == c:
            self.hcvar = None
        if self.lab == c:
            self.lab = None
        self.nbind += 1
        # under a guard the previous object may still be the current one
        self.version[c] = (self.version.get(c, {0}) if guards else set()) | {self.nbind}

    def bindname(self, name, guards=(), modelled=False):
        """a (re)binding of a local name: the name itself at top level; inside an inlined helper a fresh canonical variable,
        except for a CONDITIONAL rebinding of a name that already stands for a variable: both paths must then agree on the
        variable, so the existing one is overwritten in place (checked at the helper's return)"""
        if name in RESERVED or name in DENY_NAMES:
            raise Fail(f"re-binding of the reserved name {name}")
        if modelled:
            self.ever.add((id(self.scope), name))
        if not self.prefix:
            self.alias[name] = name
            c = name
        elif guards and name in self.alias:
            c = self.alias[name]
            if not c.startswith(self.prefix):
                self.inplace.add(c)
        else:
            c = f"{self.prefix}{name}"
            self.alias[name] = c
        if modelled:
            self.forget(c, guards)
        return c

    def bind_m(self, name, guards=()):
        return self.bindname(name, guards, modelled=True)

    # ------------------------------------------------------------------ the fail-closed rule for everything outside the grammar
    def why_not_inert(self, node):
        """None if `node` (a statement, or a sub-expression the model ignores) can neither re-bind, nor mutate, nor leak a
        reference to a protected variable; else the reason.  No side effects."""
        par = _parents(node)
        for n in ast.walk(node):
            if isinstance(n, (ast.Return, ast.Yield, ast.YieldFrom, ast.Await)):
                return "a second exit (return / yield / await) of the function: the statements after it would not be straight-line code"
            if isinstance(n, ast.Attribute) and n.attr == "hc":
                return f"access to the criteria dictionary outside the grammar: {ast.unparse(n)[:60]}"
            if isinstance(n, ast.Name) and n.id in DENY_NAMES:
                return f"use of {n.id}"
            if isinstance(n, ast.Name) and isinstance(n.ctx, ast.Load) and self.protected(n.id):
                c = self.r(n.id)
                k = self.kind(c) or self.kind(n.id)
                p = par.get(n)
                if k == "scalar":
                    continue  # reads of a threshold / flag are harmless (writes through it are caught below)
                if k == "hc":
                    if isinstance(p, ast.Subscript) and p.value is n and isinstance(p.ctx, ast.Load) and isinstance(p.slice, ast.Constant):
                        continue
                    return f"the criteria dictionary {n.id} used other than as {n.id}[\"key\"]: {ast.unparse(p)[:60] if p is not None else n.id}"
                # a tracked object
                if isinstance(p, ast.Attribute) and p.value is n and isinstance(p.ctx, ast.Load) and p.attr in SAFE_ATTRS:
                    continue
                if (
                    isinstance(p, ast.Compare)
                    and all(isinstance(o, (ast.Is, ast.IsNot)) for o in p.ops)
                    and all(x is n or (isinstance(x, ast.Constant) and x.value is None) for x in [p.left] + p.comparators)
                ):
                    continue
                if isinstance(p, ast.Call) and len(p.args) == 1 and p.args[0] is n and all(kw.arg in PURE_KW for kw in p.keywords):
                    f = p.func
                    if isinstance(f, ast.Name) and f.id in PURE_BUILTIN:
                        continue
                    if self.np_ok and isinstance(f, ast.Attribute) and isinstance(f.value, ast.Name) and f.value.id == "np" and f.attr in PURE_NP:
                        continue
                return f"tracked variable {n.id} in a context through which it could be written or aliased: {ast.unparse(p)[:70] if p is not None else n.id}"
        # stores / deletes: plain names, and anything written THROUGH a protected name (x[..] = v, x.attr = v, del x[..])
        for name in sorted(_assigned(node)):
            if self.protected(name):
                return f"(re)binding / deletion of the protected variable {name}"
            if name in RESERVED or name in DENY_NAMES:
                return f"re-binding of the reserved name {name}"
        for n in ast.walk(node):
            if isinstance(n, (ast.Subscript, ast.Attribute, ast.Starred)) and isinstance(n.ctx, (ast.Store, ast.Del)):
                for m in ast.walk(n):
                    if isinstance(m, ast.Name) and self.protected(m.id):
                        return f"write through the protected variable {m.id}: {ast.unparse(n)[:60]}"
        return None

    def inert(self, node, what):
        why = self.why_not_inert(node)
        if why is not None:
            raise Fail(f"{what} outside the grammar touches a protected variable: {why} [{ast.unparse(node)[:80]}]")

    def skip(self, st):
        """a statement outside the grammar: must be inert; the names it binds are (re)bound as plain locals"""
        self.inert(st, "statement")
        for n in sorted(_assigned(st)):
            self.bindname(n)

    # ------------------------------------------------------------------ grammar
    def thr_of(self, node):
        if isinstance(node, ast.Name) and self.r(node.id) in self.thr:
            return self.thr[self.r(node.id)]
        # hc["xi_max"] used inline
        k = self.hc_key(node)
        if k in THR:
            return THR[k]
        if k is None:
            self.inert(node, "threshold expression")
        return "Thr.other"

    def hc_key(self, node):
        if (
            isinstance(node, ast.Subscript)
            and isinstance(node.value, ast.Name)
            and self.hcvar is not None
            and self.r(node.value.id) == self.hcvar
            and isinstance(node.slice, ast.Constant)
        ):
            return node.slice.value
        return None

    def guard_of(self, test):
        # `if hc_conj:`  /  `if Fn_cov is not None:`
        if isinstance(test, ast.Name) and self.flags.get(self.r(test.id)) == "conj":
            return "Guard.conjOn"
        if self.hc_key(test) == "conj":
            return "Guard.conjOn"
        if (
            isinstance(test, ast.Compare)
            and isinstance(test.left, ast.Name)
            and len(test.ops) == 1
            and isinstance(test.ops[0], ast.IsNot)
            and isinstance(test.comparators[0], ast.Constant)
            and test.comparators[0].value is None
        ):
            v = self.r(test.left.id)
            tb = self.tblof.get(v)
            if tb == "Tbl.fncov":
                return "Guard.covOn"
        raise Fail(f"unrecognised guard around mask code: {ast.unparse(test)}")

    def body(self, body, guards):
        for st in body:
            if self.ret is not None and not self.prefix:
                raise Fail(f"statement after the return of the result: {ast.unparse(st)[:60]}")
            if self.helper_ret is not None and self.prefix:
                raise Fail(f"statement after the return of a helper: {ast.unparse(st)[:60]}")
            self.stmt(st, guards)

    def _is_run_params(self, v):
        if isinstance(v, ast.Attribute) and v.attr == "run_params" and isinstance(v.value, ast.Name) and v.value.id == "self":
            return True
        return isinstance(v, ast.Name) and v.id in self.rp_names

    def _args(self, call):
        """the arguments of a `gen.f(...)` call in the order of f's parameters (keywords bound through the signature read
        from functions/gen.py of the same tree); a parameter left to its default is None"""
        f = call.func.attr
        if any(isinstance(a_, ast.Starred) for a_ in call.args) or any(kw.arg is None for kw in call.keywords):
            raise Fail(f"gen.{f}: starred arguments are outside the grammar")
        if not call.keywords:
            return list(call.args)
        sig = self.gen_sig.get(f)
        if sig is None:
            raise Fail(f"gen.{f}: keyword arguments, and the signature of gen.{f} could not be read")
        out = list(call.args) + [None] * (len(sig) - len(call.args))
        if len(call.args) > len(sig):
            raise Fail(f"gen.{f}: too many arguments")
        for kw in call.keywords:
            if kw.arg not in sig or out[sig.index(kw.arg)] is not None:
                raise Fail(f"gen.{f}: unknown / repeated keyword {kw.arg}")
            out[sig.index(kw.arg)] = kw.value
        while out and out[-1] is None:
            out.pop()
        if any(a_ is None for a_ in out):
            raise Fail(f"gen.{f}: an argument before a given one is left to its default")
        return out

    def _src(self, node):
        """the tracked variable a plain-name argument of a modelled call stands for"""
        return self.r(_name(node))

    def _blank_form(self, st):
        """(X, m) for `X[np.logical_not(m)] = np.nan`, else None.  (`~m` / `np.invert(m)` is deliberately not accepted:
        the masks of HC_damp / HC_cov / HC_phi_comp are integer arrays, `~m` would be an integer index.)"""
        if not (isinstance(st, ast.Assign) and len(st.targets) == 1):
            return None
        tgt, val = st.targets[0], st.value
        if not (isinstance(tgt, ast.Subscript) and isinstance(tgt.value, ast.Name)):
            return None
        if ast.unparse(val) not in NAN_EXPRS or (ast.unparse(val).startswith("np.") and not self.np_ok):
            return None
        sl = tgt.slice
        m = None
        if (
            self.np_ok
            and _is_call(sl, "np")
            and sl.func.attr == "logical_not"
            and len(sl.args) == 1
            and not sl.keywords
            and isinstance(sl.args[0], ast.Name)
        ):
            m = sl.args[0].id
        if m is None:
            return None
        if self.kind(self.canon(tgt.value.id)) != "obj" or self.kind(self.canon(m)) != "obj":
            return None
        return tgt.value.id, m

    def stmt(self, st, guards):
        self.nstmt += 1
        if isinstance(st, ast.AnnAssign) and st.value is not None and isinstance(st.target, ast.Name) and st.simple:
            # `x: T = e` binds exactly like `x = e` (the annotation is not evaluated for its effect)
            st = ast.copy_location(ast.Assign(targets=[st.target], value=st.value), st)
        g = "[" + ", ".join(guards) + "]"
        if (not self.prefix and not guards and isinstance(st, ast.Assign) and len(st.targets) == 1 and isinstance(st.targets[0], ast.Name)
                and isinstance(st.value, ast.Call) and any(k.arg == "Fn_poles" for k in st.value.keywords)
                and st.targets[0].id not in RESERVED and st.targets[0].id not in DENY_NAMES and not self.protected(st.targets[0].id)):
            # the result object built in a local and returned by the very next statement
            self.pending_result = (st.targets[0].id, st.value, self.nstmt)
            return
        if (not self.prefix and isinstance(st, ast.Return) and isinstance(st.value, ast.Name) and self.pending_result is not None
                and self.pending_result[0] == st.value.id and self.pending_result[2] == self.nstmt - 1):
            st = ast.copy_location(ast.Return(value=self.pending_result[1]), st)
        elif self.pending_result is not None and self.pending_result[2] == self.nstmt - 1:
            raise Fail(f"result object {self.pending_result[0]} is not returned by the next statement")
        bf = self._blank_form(st)
        if bf is not None:
            x, m = self.r(bf[0]), self.r(bf[1])
            if x in self.lists or m in self.lists:
                raise Fail(f"in-place blanking of / by a list: {ast.unparse(st)[:60]}")
            self.stmts.append((g, f'Stmt.blank "{x}" "{m}"'))
            # value semantics of the model vs object semantics of Python: lists that hold this very object are now stale
            for l, snap in self.listsnap.items():
                if any((x, v) in snap for v in self.version.get(x, {0})):
                    self.stale.add(l)
            return
        if isinstance(st, ast.Assign) and len(st.targets) == 1:
            tgt, val = st.targets[0], st.value
            # rp = self.run_params  (only when it is the single binding of that name, see translate)
            # hc = self.run_params.hc
            if isinstance(tgt, ast.Name) and isinstance(val, ast.Attribute) and val.attr == "hc":
                if not self._is_run_params(val.value):
                    raise Fail(f"criteria dictionary taken from something that is not self.run_params: {ast.unparse(val)[:60]}")
                if self.hcvar is not None or guards:
                    raise Fail("criteria dictionary bound twice / under a guard")
                if self.protected(tgt.id):
                    raise Fail(f"{tgt.id} re-bound to the criteria dictionary")
                self.hcvar = self.bind_m(tgt.id)
                return
            if isinstance(tgt, ast.Name) and self.hcvar and self.hc_key(val) is not None:
                k = self.hc_key(val)
                if self.kind(self.canon(tgt.id)) in ("obj", "hc"):
                    raise Fail(f"{tgt.id} re-bound to a criterion value")
                if guards:
                    raise Fail(f"criterion value read under a guard: {ast.unparse(st)[:60]}")
                c = self.bind_m(tgt.id)
                if k in THR:
                    self.thr[c] = THR[k]
                else:
                    self.flags[c] = k
                return
            for (mod, fn), tbls in POLE_FUNCS.items():
                if _is_call(val, mod, fn):
                    if guards or self.prefix:
                        raise Fail("pole computation under a guard / inside a helper")
                    if self.pole_seen:
                        raise Fail("second pole computation")
                    for a_ in list(val.args) + [kw.value for kw in val.keywords]:
                        self.inert(a_, f"argument of {fn}")
                    ns = _names(tgt)
                    if len(ns) != len(tbls) or len(set(ns)) != len(ns):
                        raise Fail(f"{fn}: expected {len(tbls)} distinct results, got {len(ns)}")
                    for n_ in ns:
                        if self.protected(n_):
                            raise Fail(f"{n_} re-bound by the pole computation")
                    ns = [self.bind_m(n_) for n_ in ns]
                    self.init = list(zip(ns, tbls))
                    for n_, tb in self.init:
                        self.tblof[n_] = tb
                    self.tracked |= set(ns)
                    self.pole_seen = True
                    return
            if _is_call(val, "gen"):
                f = val.func.attr
                args_ = self._args(val)
                if f in CRIT1:
                    if len(args_) != (1 if f == "HC_conj" else 2):
                        raise Fail(f"gen.{f} call form")
                    src = self._src(args_[0])
                    if f == "HC_conj":
                        c = "Crit.conj"
                    else:
                        c = f"Crit.{CRIT1[f]} {self.thr_of(args_[1])}"
                    dTn, dMn = _names(tgt)
                    if dTn == dMn:
                        raise Fail(f"gen.{f}: table and mask bound to the same name")
                    srctb = self.tblof.get(src)
                    dT, dM = self.bind_m(dTn, guards), self.bind_m(dMn, guards)
                    self.stmts.append((g, f'Stmt.hc1 ({c}) "{dT}" "{dM}" "{src}"'))
                    self.tracked |= {dT, dM}
                    if srctb is not None:
                        self.tblof[dT] = srctb
                    return
                if f == "HC_phi_comp":
                    if len(args_) != 3:
                        raise Fail("HC_phi_comp call form")
                    src = self._src(args_[0])
                    t1, t2 = self.thr_of(args_[1]), self.thr_of(args_[2])
                    d3n, d4n = _names(tgt)
                    if d3n == d4n:
                        raise Fail("HC_phi_comp: both masks bound to the same name")
                    d3, d4 = self.bind_m(d3n, guards), self.bind_m(d4n, guards)
                    self.stmts.append((g, f'Stmt.hcPhi "{d3}" "{d4}" "{src}" {t1} {t2}'))
                    self.tracked |= {d3, d4}
                    return
                if f == "applymask":
                    if len(args_) != 3:
                        raise Fail("applymask call form")
                    l = self._src(args_[0])
                    if l not in self.lists:
                        raise Fail(f"applymask on something that is not a tracked list: {l}")
                    m = self._src(args_[1])
                    self.inert(args_[2], "third argument of applymask")
                    elts = self.listelts.get(l, [])
                    tbs = [self.tblof.get(e) for e in elts]
                    tn = _names(tgt)
                    if len(set(tn)) != len(tn):
                        raise Fail("applymask: a name occurs twice among the targets")
                    dsts = [self.bind_m(d, guards) for d in tn]
                    ds = ", ".join(f'"{d}"' for d in dsts)
                    self.stmts.append((g, f'Stmt.apply [{ds}] "{l}" "{m}"'))
                    self.tracked |= set(dsts)
                    for d, tb in zip(dsts, tbs):
                        if tb is not None:
                            self.tblof[d] = tb
                    return
                if f == "SC_apply":
                    if len(args_) < 3:
                        raise Fail("SC_apply call form")
                    args = [self._src(a) for a in args_[:3]]
                    for a_ in args_[3:]:
                        self.inert(a_, "argument of SC_apply")
                    if guards:
                        raise Fail("SC_apply under a guard")
                    if self.lab is not None:
                        raise Fail("second SC_apply")
                    lab = self.bind_m(_name(tgt))
                    as_ = ", ".join(f'"{a}"' for a in args)
                    self.stmts.append((g, f'Stmt.bind "{lab}" [{as_}]'))
                    self.lab = lab
                    self.lists.add(lab)
                    self.tracked.add(lab)
                    return
                raise Fail(f"unknown gen call {f}")
            if isinstance(val, ast.List) and isinstance(tgt, ast.Name) and all(isinstance(e, ast.Name) for e in val.elts) and (
                set(self.canon(e.id) for e in val.elts) & self.tracked
            ):
                elts = [self.r(e.id) for e in val.elts]
                if any(e in self.lists for e in elts):
                    raise Fail(f"list of lists: {ast.unparse(st)[:60]}")
                snap = [(e, v) for e in elts for v in self.version.get(e, {0})]
                vs = ", ".join(f'"{e}"' for e in elts)
                l = self.bind_m(tgt.id, guards)
                self.stmts.append((g, f'Stmt.bind "{l}" [{vs}]'))
                self.lists.add(l)
                self.listelts[l] = elts
                self.listsnap[l] = snap
                self.tracked.add(l)
                return
            # a call of a helper (module-level function or method of the class) that carries mask code: inlined
            h = self._helper_of(val)
            if h is not None and any(_is_call(n, "gen") for n in ast.walk(h)):
                self._inline(h, val, tgt, guards)
                return
            # any other assignment must not touch a protected variable
            self.skip(st)
            return
        if isinstance(st, ast.If):
            carries = any(_is_call(n, "gen") or self._helper_of(n) is not None for n in ast.walk(st))
            if not carries and self.why_not_inert(st) is None:
                self.skip(st)
                return
            if st.orelse:
                raise Fail("else branch around mask code")
            self.body(st.body, guards + [self.guard_of(st.test)])
            return
        if isinstance(st, ast.Return):
            if self.prefix:  # return of an inlined helper: the canonical variables of the returned names
                v = st.value
                if guards:
                    raise Fail("return under a guard inside a helper")
                if v is None:
                    raise Fail("helper returns nothing")
                if isinstance(v, ast.Call):
                    # `return f(...)` is `_ret = f(...); return _ret`
                    tmp = ast.Assign(targets=[ast.Name(id="_ret_", ctx=ast.Store())], value=v)
                    ast.copy_location(tmp, st)
                    ast.fix_missing_locations(tmp)
                    self.stmt(tmp, guards)
                    self.helper_ret = [self.r("_ret_")]
                    return
                self.helper_ret = [self.r(n) for n in _names(v)]
                return
            if guards:
                raise Fail("return of the result under a guard")
            if not isinstance(st.value, ast.Call):
                raise Fail("return is not a constructor call")
            self.inert(st.value.func, "result constructor")
            for a_ in st.value.args:
                self.inert(a_, "positional argument of the result constructor")
            ret = []
            for k in st.value.keywords:
                if isinstance(k.value, ast.Name) and k.arg is not None:
                    ret.append((k.arg, self.r(k.value.id)))
                else:
                    self.inert(k.value, "field of the result constructor")
            self.ret = ret
            return
        if isinstance(st, ast.Expr) and isinstance(st.value, ast.Constant):  # docstring
            return
        # everything else: expression statements (bare calls), augmented / annotated assignments, multiple-target
        # assignments, del, for / while / with / try / match, nested definitions, ...
        self.skip(st)

    def _helper_of(self, val):
        """FunctionDef of `helper(...)` / `self.helper(...)` when it is defined in the same module / class"""
        if not isinstance(val, ast.Call):
            return None
        f = val.func
        if isinstance(f, ast.Name):
            return self.helpers.get(f.id)
        if isinstance(f, ast.Attribute) and isinstance(f.value, ast.Name) and f.value.id == "self":
            return self.helpers.get("self." + f.attr)
        return None

    def _inline(self, h, call, tgt, guards):
        if self.depth >= 3:
            raise Fail("helper nesting too deep")
        params = [a.arg for a in h.args.posonlyargs + h.args.args]
        static = len(h.decorator_list) == 1 and isinstance(h.decorator_list[0], ast.Name) and h.decorator_list[0].id == "staticmethod"
        if h.decorator_list and not static:
            raise Fail(f"helper {h.name}: decorated")
        if params and params[0] == "self" and not static:
            params = params[1:]
        if h.args.vararg or h.args.kwarg or h.args.kwonlyargs:
            raise Fail(f"helper {h.name}: unsupported signature")
        bound = {}
        if len(call.args) > len(params):
            raise Fail(f"helper {h.name}: too many arguments")
        for p_, a in zip(params, call.args):
            bound[p_] = a
        for kw in call.keywords:
            if kw.arg is None or kw.arg not in params or kw.arg in bound:
                raise Fail(f"helper {h.name}: bad keyword argument")
            bound[kw.arg] = kw.value
        if set(bound) != set(params):
            raise Fail(f"helper {h.name}: defaults are not supported")
        saved = (self.alias, self.prefix, self.helper_ret, self.inplace, self.scope)
        self.inplace = set()
        new_alias = {}
        for p_, a in bound.items():
            if isinstance(a, ast.Name):
                new_alias[p_] = self.r(a.id)
            else:
                raise Fail(f"helper {h.name}: argument {ast.unparse(a)[:40]} is not a plain name")
        self.depth += 1
        self.alias = new_alias
        self.prefix = f"{saved[1]}{h.name}{self.depth}."
        self.helper_ret = None
        self.scope = h
        self.scopes.append(h)
        for p_, c_ in new_alias.items():
            self.ever.add((id(h), p_))
        body = [s_ for s_ in h.body if not (isinstance(s_, ast.Expr) and isinstance(s_.value, ast.Constant))]
        self.body(body, guards)
        ret = self.helper_ret
        inplace = self.inplace
        self.alias, self.prefix, self.helper_ret, self.inplace, self.scope = saved
        self.depth -= 1
        if ret is None:
            raise Fail(f"helper {h.name}: no plain return of names")
        tnames = _names(tgt)
        if len(tnames) != len(ret) or len(set(tnames)) != len(tnames):
            raise Fail(f"helper {h.name}: {len(ret)} values returned, {len(tnames)} (distinct) targets")
        # a caller variable the helper overwrote in place (conditional rebinding of a parameter) must be re-bound by the
        # caller from the helper's results: otherwise the in-place model would misrepresent Python's call-by-object
        # ... if the caller does not, its (unchanged) object differs from the model's variable from here on: the variable is
        # poisoned -- harmless as long as the caller never reads it again, a translation failure as soon as it does
        for t, c in zip(tnames, ret):
            if t in RESERVED or t in DENY_NAMES:
                raise Fail(f"re-binding of the reserved name {t}")
            old = self.canon(t)
            if old is not None and old != c and self.kind(old) in ("scalar", "hc"):
                raise Fail(f"{t} (a criterion value) re-bound from a helper")
            self.alias[t] = c  # the caller's name now stands for the helper's variable (no statement needed)
            self.ever.add((id(self.scope), t))
        rebound = {self.alias.get(t, t) for t in tnames}
        if self.depth == 0:
            self.poisoned |= (inplace - rebound)
        elif not inplace <= rebound:
            raise Fail(f"helper {h.name}: conditionally rebinds parameters {sorted(inplace - rebound)} that the caller keeps using")

    def closure_check(self):
        """nested functions / lambdas / classes may run later: they must not mention any name that stands for a protected
        variable at any time in the enclosing function"""
        for fn in self.scopes:
            names = {n for (sid, n) in self.ever if sid == id(fn)}
            for st in fn.body:
                for n in ast.walk(st):
                    if isinstance(n, (ast.FunctionDef, ast.AsyncFunctionDef, ast.Lambda, ast.ClassDef)):
                        for m in ast.walk(n):
                            nm = m.id if isinstance(m, ast.Name) else None
                            if isinstance(m, (ast.Global, ast.Nonlocal)):
                                if set(m.names) & names:
                                    nm = sorted(set(m.names) & names)[0]
                            if nm in names:
                                raise Fail(f"nested function / lambda / class in {fn.name} mentions the protected variable {nm}")
                    if isinstance(n, (ast.Global, ast.Nonlocal)) and set(n.names) & names:
                        raise Fail(f"global / nonlocal declaration of a protected variable in {fn.name}")


def find_run(trees, mod, cls):
    tree = trees[mod]
    classes = {n.name: n for n in tree.body if isinstance(n, ast.ClassDef)}
    c = cls
    while True:
        node = classes.get(c)
        if node is None:
            raise Fail(f"class {c} not found")
        for m in node.body:
            if isinstance(m, ast.FunctionDef) and m.name == "run":
                return m, c
        bases = []
        for b in node.bases:
            if isinstance(b, ast.Subscript):
                b = b.value
            if isinstance(b, ast.Name):
                bases.append(b.id)
        nxt = [b for b in bases if b in classes]
        if not nxt:
            raise Fail(f"no run() for {cls}")
        c = nxt[0]


def read_sources(repo):
    srcs = {mod: open(os.path.join(repo, "src", "pyoma2", "algorithms", f"{mod}.py")).read() for mod in ("ssi", "plscf")}
    srcs["gen"] = open(os.path.join(repo, "src", "pyoma2", "functions", "gen.py")).read()  # signatures only (keyword arguments)
    return srcs


def _gen_signatures(text):
    out = {}
    for n in _parse(text).body:
        if isinstance(n, ast.FunctionDef) and not (n.args.vararg or n.args.kwarg or n.args.kwonlyargs):
            out[n.name] = [a.arg for a in n.args.posonlyargs + n.args.args]
    return out


def _top_bindings(tree, name):
    """module-level statements that bind `name`"""
    return [st for st in tree.body if name in ({st.name} if isinstance(st, (ast.FunctionDef, ast.AsyncFunctionDef, ast.ClassDef)) else _assigned(st))]


def _module_ok(tree, mod):
    """the module-level names the grammar relies on are what they seem: `gen` and the pole module come from
    pyoma2.functions (bound once, by import); returns whether `np` is numpy"""
    for name in ("gen", mod):
        b = _top_bindings(tree, name)
        ok = len(b) == 1 and (
            (
                isinstance(b[0], ast.ImportFrom)
                and (b[0].module, b[0].level) in (("pyoma2.functions", 0), ("functions", 2))
                and any(a.name == name and a.asname in (None, name) for a in b[0].names)
            )
            or (isinstance(b[0], ast.Import) and any(a.name == f"pyoma2.functions.{name}" and a.asname == name for a in b[0].names))
        )
        if not ok:
            raise Fail(f"algorithms/{mod}.py: `{name}` is not bound (once) by an import of pyoma2.functions.{name}")
    b = _top_bindings(tree, "np")
    return len(b) == 1 and isinstance(b[0], ast.Import) and any(a.name == "numpy" and a.asname == "np" for a in b[0].names)


def translate(repo):
    return translate_sources(read_sources(repo))


_PARSED = {}


def _parse(text):
    if text not in _PARSED:
        if len(_PARSED) > 8:
            _PARSED.clear()
        tree = ast.parse(text)
        _PARSED[text] = tree
    return _PARSED[text]


def translate_sources(srcs, classes=None):
    """srcs: {"ssi": source text of algorithms/ssi.py, "plscf": ...}; classes: the (module, class) pairs to translate
    (default: all six -- anything else is for the self-test only)"""
    classes = CLASSES if classes is None else classes
    trees = {mod: _parse(srcs[mod]) for mod in ("ssi", "plscf")}
    np_ok = {mod: _module_ok(trees[mod], mod) for mod in trees}
    gen_sig = _gen_signatures(srcs["gen"]) if "gen" in srcs else {}
    out = []
    out.append("import PyomaVerif.Model.HcProg")
    out.append("/-! GENERATED by harness/translate_hc.py from /repo/src/pyoma2/algorithms/{ssi,plscf}.py — do not edit. -/")
    out.append("namespace PV.Hc.Gen")
    out.append("open PV.Hc")
    summary = {}
    for mod, cls in classes:
        fn, owner = find_run(trees, mod, cls)
        t = Tr()
        classes = {n_.name: n_ for n_ in trees[mod].body if isinstance(n_, ast.ClassDef)}

        def mro(cname, seen=()):
            """base classes defined in this module first, the class itself last (so that overriding methods win)"""
            node = classes.get(cname)
            if node is None or cname in seen:
                return []
            out_ = []
            for b in node.bases:
                if isinstance(b, ast.Subscript):
                    b = b.value
                if isinstance(b, ast.Name):
                    out_ += mro(b.id, seen + (cname,))
            return out_ + [node]

        for n_ in trees[mod].body:
            if isinstance(n_, ast.FunctionDef):
                t.helpers[n_.name] = n_
        for n_ in mro(cls):
            for m_ in n_.body:
                if isinstance(m_, ast.FunctionDef) and m_.name != "run":
                    t.helpers["self." + m_.name] = m_
        t.np_ok = np_ok[mod]
        t.gen_sig = gen_sig
        t.scope = fn
        t.scopes.append(fn)
        if fn.decorator_list:
            raise Fail(f"{cls}.run is decorated")
        # rp = self.run_params, when this is the only binding of the name in run()
        for st_ in fn.body:
            if isinstance(st_, ast.AnnAssign) and st_.value is not None and isinstance(st_.target, ast.Name) and st_.simple:
                st_ = ast.copy_location(ast.Assign(targets=[st_.target], value=st_.value), st_)
            if (
                isinstance(st_, ast.Assign)
                and len(st_.targets) == 1
                and isinstance(st_.targets[0], ast.Name)
                and t._is_run_params(st_.value)
                and sum(st_.targets[0].id in _assigned(x) for x in fn.body) == 1
            ):
                t.rp_names.add(st_.targets[0].id)
        try:
            t.body(fn.body, [])
            t.closure_check()
        except Fail as e:
            raise Fail(f"{cls}.run: {e}") from None
        if not t.pole_seen or t.ret is None or t.lab is None:
            raise Fail(f"{cls}: pole computation / return / SC_apply not found")
        if ("Lab", t.lab) not in t.ret:
            raise Fail(f"{cls}: the label table returned is not the result of SC_apply")
        init = ", ".join(f'("{v}", {tb})' for v, tb in t.init)
        stm = ",\n    ".join(f"({g}, {s})" for g, s in t.stmts)
        ret = ", ".join(f'("{k}", "{v}")' for k, v in t.ret)
        out.append(f"def prog_{cls} : ClassProg :=\n  {{ init := [{init}],\n    prog := [\n    {stm}],\n    ret := [{ret}],\n    lab := \"{t.lab}\" }}")
        summary[cls] = {"run_defined_in": owner, "statements": len(t.stmts), "fields": [k for k, _ in t.ret]}
    out.append("end PV.Hc.Gen")
    return "\n".join(out) + "\n", summary


def write(repo, lean_dir):
    """returns (ok, message, summary)"""
    path = os.path.join(lean_dir, "PyomaVerif", "Generated", "HcProgs.lean")
    try:
        text, summary = translate(repo)
    except (Fail, SyntaxError, IndexError, ValueError) as e:
        return False, f"translator failed closed: {e}", {}
    old = open(path).read() if os.path.exists(path) else None
    if old != text:
        open(path, "w").write(text)
    return True, "ok", summary


if __name__ == "__main__":
    import sys

    here = os.path.dirname(os.path.dirname(os.path.abspath(__file__)))
    repo = os.environ.get("PYOMA2_REPO", "/repo")
    if "--write" in sys.argv:
        ok, msg, s = write(repo, os.path.join(here, "lean"))
        print(msg, s)
        sys.exit(0 if ok else 1)
    text, s = translate(repo)
    print(text)
    print(s, file=sys.stderr)
