"""Python-AST -> Lean translator for the hard-criteria part of the run() methods (C09/C10).

Reads algorithms/ssi.py and algorithms/plscf.py of the CURRENT working tree and emits
lean/PyomaVerif/Generated/HcProgs.lean.  Fails closed: any statement that touches a
tracked variable and is outside the grammar aborts the translation (Fail)."""
import ast
import os

CRIT1 = {"HC_conj": "conj", "HC_damp": "damp", "HC_cov": "cov"}
THR = {"xi_max": "Thr.xiMax", "mpc_lim": "Thr.mpcLim", "mpd_lim": "Thr.mpdLim", "cov_max": "Thr.covMax"}
POLE_FUNCS = {
    ("ssi", "SSI_poles"): ["Tbl.fn", "Tbl.xi", "Tbl.phi", "Tbl.lam", "Tbl.fncov", "Tbl.xicov", "Tbl.phicov"],
    ("plscf", "pLSCF_poles"): ["Tbl.fn", "Tbl.xi", "Tbl.phi", "Tbl.lam"],
}
CLASSES = [("ssi", "SSIdat"), ("ssi", "SSIcov"), ("ssi", "SSIdat_MS"), ("ssi", "SSIcov_MS"), ("plscf", "pLSCF"), ("plscf", "pLSCF_MS")]


class Fail(Exception):
    pass


def _name(n):
    if isinstance(n, ast.Name):
        return n.id
    raise Fail(f"not a plain name: {ast.unparse(n)}")


def _names(node):
    if isinstance(node, (ast.Tuple, ast.List)):
        return [_name(e) for e in node.elts]
    return [_name(node)]


def _is_call(v, mod=None, fn=None):
    return (
        isinstance(v, ast.Call)
        and isinstance(v.func, ast.Attribute)
        and isinstance(v.func.value, ast.Name)
        and (mod is None or v.func.value.id == mod)
        and (fn is None or v.func.attr == fn)
    )


def _assigned(st):
    out = set()
    for n in ast.walk(st):
        if isinstance(n, ast.Name) and isinstance(n.ctx, ast.Store):
            out.add(n.id)
    return out


class Tr:
    def __init__(self):
        self.stmts = []  # (guards, lean stmt string)
        self.init = []  # (var, Tbl)
        self.tracked = set()
        self.lists = set()
        self.thr = {}  # variable -> Thr constructor
        self.flags = {}  # variable -> hc key (e.g. hc_conj -> conj)
        self.hcvar = None
        self.ret = None
        self.lab = None
        self.pole_seen = False
        self.tblof = {}  # canonical variable -> unfiltered table it (a filtered version of it) holds
        self.listelts = {}  # list variable -> canonical element variables
        self.alias = {}  # local name -> canonical variable (helper inlining); identity at the top level
        self.prefix = ""  # non-empty while a helper body is being inlined
        self.helpers = {}  # name -> FunctionDef of module-level functions / methods of the class
        self.depth = 0
        self.helper_ret = None
        self.inplace = set()  # caller variables overwritten in place by conditional rebindings inside a helper
        self.poisoned = set()  # ... that the caller did NOT re-bind from the helper's results: any later use fails closed

    def r(self, name):
        """canonical variable a local name stands for"""
        c = self.alias.get(name, name)
        if c in self.poisoned and not self.prefix:
            raise Fail(f"{name}: conditionally rebound inside a helper and used by the caller afterwards without being re-bound")
        return c

    def bindname(self, name, guards=()):
        """a (re)binding of a local name: the name itself at top level; inside an inlined helper a fresh canonical variable,
        except for a CONDITIONAL rebinding of a name that already stands for a variable: both paths must then agree on the
        variable, so the existing one is overwritten in place (checked at the helper's return)"""
        if not self.prefix:
            self.alias[name] = name
            return name
        if guards and name in self.alias:
            c = self.alias[name]
            if not c.startswith(self.prefix):
                self.inplace.add(c)
            return c
        c = f"{self.prefix}{name}"
        self.alias[name] = c
        return c

    def thr_of(self, node):
        if isinstance(node, ast.Name) and self.r(node.id) in self.thr:
            return self.thr[self.r(node.id)]
        # hc["xi_max"] used inline
        k = self.hc_key(node)
        if k in THR:
            return THR[k]
        return "Thr.other"

    def hc_key(self, node):
        if (
            isinstance(node, ast.Subscript)
            and isinstance(node.value, ast.Name)
            and self.hcvar is not None
            and self.r(node.value.id) == self.hcvar
            and isinstance(node.slice, ast.Constant)
        ):
            return node.slice.value
        return None

    def guard_of(self, test):
        # `if hc_conj:`  /  `if Fn_cov is not None:`
        if isinstance(test, ast.Name) and self.flags.get(self.r(test.id)) == "conj":
            return "Guard.conjOn"
        if self.hc_key(test) == "conj":
            return "Guard.conjOn"
        if (
            isinstance(test, ast.Compare)
            and isinstance(test.left, ast.Name)
            and len(test.ops) == 1
            and isinstance(test.ops[0], ast.IsNot)
            and isinstance(test.comparators[0], ast.Constant)
            and test.comparators[0].value is None
        ):
            v = self.r(test.left.id)
            tb = self.tblof.get(v)
            if tb == "Tbl.fncov":
                return "Guard.covOn"
        raise Fail(f"unrecognised guard around mask code: {ast.unparse(test)}")

    def body(self, body, guards):
        for st in body:
            self.stmt(st, guards)

    def stmt(self, st, guards):
        g = "[" + ", ".join(guards) + "]"
        if isinstance(st, ast.Assign) and len(st.targets) == 1:
            tgt, val = st.targets[0], st.value
            # hc = self.run_params.hc
            if isinstance(tgt, ast.Name) and isinstance(val, ast.Attribute) and val.attr == "hc":
                self.hcvar = self.bindname(tgt.id)
                return
            if isinstance(tgt, ast.Name) and self.hcvar and self.hc_key(val) is not None:
                k = self.hc_key(val)
                c = self.bindname(tgt.id)
                if k in THR:
                    self.thr[c] = THR[k]
                else:
                    self.flags[c] = k
                return
            for (mod, fn), tbls in POLE_FUNCS.items():
                if _is_call(val, mod, fn):
                    if guards or self.prefix:
                        raise Fail("pole computation under a guard / inside a helper")
                    ns = _names(tgt)
                    if len(ns) != len(tbls):
                        raise Fail(f"{fn}: expected {len(tbls)} results, got {len(ns)}")
                    self.init = list(zip(ns, tbls))
                    for n_, tb in self.init:
                        self.tblof[n_] = tb
                    self.tracked |= set(ns)
                    self.pole_seen = True
                    return
            if _is_call(val, "gen"):
                f = val.func.attr
                if f in CRIT1:
                    src = self.r(_name(val.args[0]))
                    if f == "HC_conj":
                        c = "Crit.conj"
                    else:
                        c = f"Crit.{CRIT1[f]} {self.thr_of(val.args[1])}"
                    dTn, dMn = _names(tgt)
                    dT, dM = self.bindname(dTn, guards), self.bindname(dMn, guards)
                    self.stmts.append((g, f'Stmt.hc1 ({c}) "{dT}" "{dM}" "{src}"'))
                    self.tracked |= {dT, dM}
                    if src in self.tblof:
                        self.tblof[dT] = self.tblof[src]
                    return
                if f == "HC_phi_comp":
                    src = self.r(_name(val.args[0]))
                    if len(val.args) != 3 or val.keywords:
                        raise Fail("HC_phi_comp call form")
                    t1, t2 = self.thr_of(val.args[1]), self.thr_of(val.args[2])
                    d3n, d4n = _names(tgt)
                    d3, d4 = self.bindname(d3n, guards), self.bindname(d4n, guards)
                    self.stmts.append((g, f'Stmt.hcPhi "{d3}" "{d4}" "{src}" {t1} {t2}'))
                    self.tracked |= {d3, d4}
                    return
                if f == "applymask":
                    l = self.r(_name(val.args[0]))
                    if l not in self.lists:
                        raise Fail(f"applymask on something that is not a tracked list: {l}")
                    m = self.r(_name(val.args[1]))
                    elts = self.listelts.get(l, [])
                    dsts = [self.bindname(d, guards) for d in _names(tgt)]
                    ds = ", ".join(f'"{d}"' for d in dsts)
                    self.stmts.append((g, f'Stmt.apply [{ds}] "{l}" "{m}"'))
                    self.tracked |= set(dsts)
                    for d, e in zip(dsts, elts):
                        if e in self.tblof:
                            self.tblof[d] = self.tblof[e]
                    return
                if f == "SC_apply":
                    args = [self.r(_name(a)) for a in val.args[:3]]
                    if guards:
                        raise Fail("SC_apply under a guard")
                    lab = self.bindname(_name(tgt))
                    as_ = ", ".join(f'"{a}"' for a in args)
                    self.stmts.append((g, f'Stmt.bind "{lab}" [{as_}]'))
                    self.lab = lab
                    self.lists.add(lab)
                    self.tracked.add(lab)
                    return
                raise Fail(f"unknown gen call {f}")
            if isinstance(val, ast.List) and isinstance(tgt, ast.Name) and all(isinstance(e, ast.Name) for e in val.elts) and (
                set(self.r(e.id) for e in val.elts) & self.tracked
            ):
                elts = [self.r(e.id) for e in val.elts]
                vs = ", ".join(f'"{e}"' for e in elts)
                l = self.bindname(tgt.id, guards)
                self.stmts.append((g, f'Stmt.bind "{l}" [{vs}]'))
                self.lists.add(l)
                self.listelts[l] = elts
                self.tracked.add(l)
                return
            # a call of a helper (module-level function or method of the class) that carries mask code: inlined
            h = self._helper_of(val)
            if h is not None and any(_is_call(n, "gen") for n in ast.walk(h)):
                self._inline(h, val, tgt, guards)
                return
            # any other assignment must not touch a tracked variable once poles exist
            if self.pole_seen and ({self.r(n) for n in _assigned(st)} & self.tracked or _assigned(st) & self.tracked):
                raise Fail(f"untranslatable assignment to a tracked variable: {ast.unparse(st)[:80]}")
            for n in _assigned(st):
                self.bindname(n)
            return
        if isinstance(st, ast.If):
            touches = any(_is_call(n, "gen") or self._helper_of(n) is not None for n in ast.walk(st)) or (
                self.pole_seen and (_assigned(st) & self.tracked)
            )
            if not touches:
                return
            if st.orelse:
                raise Fail("else branch around mask code")
            self.body(st.body, guards + [self.guard_of(st.test)])
            return
        if isinstance(st, ast.Return):
            if self.prefix:  # return of an inlined helper: the canonical variables of the returned names
                v = st.value
                if guards:
                    raise Fail("return under a guard inside a helper")
                self.helper_ret = [self.r(n) for n in _names(v)]
                return
            if not isinstance(st.value, ast.Call):
                raise Fail("return is not a constructor call")
            self.ret = [(k.arg, self.r(_name(k.value))) for k in st.value.keywords if isinstance(k.value, ast.Name)]
            return
        if isinstance(st, ast.Expr):  # docstring / bare call
            if self.pole_seen and any(isinstance(n, ast.Name) and self.r(n.id) in self.tracked for n in ast.walk(st)) and not isinstance(st.value, ast.Constant):
                raise Fail(f"expression statement touching tracked variables: {ast.unparse(st)[:80]}")
            return
        if self.pole_seen and (_assigned(st) & self.tracked):
            raise Fail(f"untranslatable statement touching tracked variables: {ast.unparse(st)[:80]}")

    def _helper_of(self, val):
        """FunctionDef of `helper(...)` / `self.helper(...)` when it is defined in the same module / class"""
        if not isinstance(val, ast.Call):
            return None
        f = val.func
        if isinstance(f, ast.Name):
            return self.helpers.get(f.id)
        if isinstance(f, ast.Attribute) and isinstance(f.value, ast.Name) and f.value.id == "self":
            return self.helpers.get("self." + f.attr)
        return None

    def _inline(self, h, call, tgt, guards):
        if self.depth >= 3:
            raise Fail("helper nesting too deep")
        params = [a.arg for a in h.args.posonlyargs + h.args.args]
        if params and params[0] == "self":
            params = params[1:]
        if h.args.vararg or h.args.kwarg or h.args.kwonlyargs:
            raise Fail(f"helper {h.name}: unsupported signature")
        bound = {}
        if len(call.args) > len(params):
            raise Fail(f"helper {h.name}: too many arguments")
        for p_, a in zip(params, call.args):
            bound[p_] = a
        for kw in call.keywords:
            if kw.arg is None or kw.arg not in params or kw.arg in bound:
                raise Fail(f"helper {h.name}: bad keyword argument")
            bound[kw.arg] = kw.value
        if set(bound) != set(params):
            raise Fail(f"helper {h.name}: defaults are not supported")
        saved = (self.alias, self.prefix, self.helper_ret, self.inplace)
        self.inplace = set()
        new_alias = {}
        for p_, a in bound.items():
            if isinstance(a, ast.Name):
                new_alias[p_] = self.r(a.id)
            else:
                raise Fail(f"helper {h.name}: argument {ast.unparse(a)[:40]} is not a plain name")
        self.depth += 1
        self.alias = new_alias
        self.prefix = f"{saved[1]}{h.name}{self.depth}."
        self.helper_ret = None
        body = [s_ for s_ in h.body if not (isinstance(s_, ast.Expr) and isinstance(s_.value, ast.Constant))]
        self.body(body, guards)
        ret = self.helper_ret
        inplace = self.inplace
        self.alias, self.prefix, self.helper_ret, self.inplace = saved
        self.depth -= 1
        if ret is None:
            raise Fail(f"helper {h.name}: no plain return of names")
        tnames = _names(tgt)
        if len(tnames) != len(ret):
            raise Fail(f"helper {h.name}: {len(ret)} values returned, {len(tnames)} targets")
        # a caller variable the helper overwrote in place (conditional rebinding of a parameter) must be re-bound by the
        # caller from the helper's results: otherwise the in-place model would misrepresent Python's call-by-object
        # ... if the caller does not, its (unchanged) object differs from the model's variable from here on: the variable is
        # poisoned -- harmless as long as the caller never reads it again, a translation failure as soon as it does
        for t, c in zip(tnames, ret):
            self.alias[t] = c  # the caller's name now stands for the helper's variable (no statement needed)
        rebound = {self.alias.get(t, t) for t in tnames}
        if self.depth == 0:
            self.poisoned |= (inplace - rebound)
        elif not inplace <= rebound:
            raise Fail(f"helper {h.name}: conditionally rebinds parameters {sorted(inplace - rebound)} that the caller keeps using")


def find_run(trees, mod, cls):
    tree = trees[mod]
    classes = {n.name: n for n in tree.body if isinstance(n, ast.ClassDef)}
    c = cls
    while True:
        node = classes.get(c)
        if node is None:
            raise Fail(f"class {c} not found")
        for m in node.body:
            if isinstance(m, ast.FunctionDef) and m.name == "run":
                return m, c
        bases = []
        for b in node.bases:
            if isinstance(b, ast.Subscript):
                b = b.value
            if isinstance(b, ast.Name):
                bases.append(b.id)
        nxt = [b for b in bases if b in classes]
        if not nxt:
            raise Fail(f"no run() for {cls}")
        c = nxt[0]


def translate(repo):
    trees = {}
    for mod in ("ssi", "plscf"):
        p = os.path.join(repo, "src", "pyoma2", "algorithms", f"{mod}.py")
        trees[mod] = ast.parse(open(p).read())
    out = []
    out.append("import PyomaVerif.Model.HcProg")
    out.append("/-! GENERATED by harness/translate_hc.py from /repo/src/pyoma2/algorithms/{ssi,plscf}.py — do not edit. -/")
    out.append("namespace PV.Hc.Gen")
    out.append("open PV.Hc")
    summary = {}
    for mod, cls in CLASSES:
        fn, owner = find_run(trees, mod, cls)
        t = Tr()
        classes = {n_.name: n_ for n_ in trees[mod].body if isinstance(n_, ast.ClassDef)}

        def mro(cname, seen=()):
            """base classes defined in this module first, the class itself last (so that overriding methods win)"""
            node = classes.get(cname)
            if node is None or cname in seen:
                return []
            out_ = []
            for b in node.bases:
                if isinstance(b, ast.Subscript):
                    b = b.value
                if isinstance(b, ast.Name):
                    out_ += mro(b.id, seen + (cname,))
            return out_ + [node]

        for n_ in trees[mod].body:
            if isinstance(n_, ast.FunctionDef):
                t.helpers[n_.name] = n_
        for n_ in mro(cls):
            for m_ in n_.body:
                if isinstance(m_, ast.FunctionDef) and m_.name != "run":
                    t.helpers["self." + m_.name] = m_
        t.body(fn.body, [])
        if not t.pole_seen or t.ret is None or t.lab is None:
            raise Fail(f"{cls}: pole computation / return / SC_apply not found")
        init = ", ".join(f'("{v}", {tb})' for v, tb in t.init)
        stm = ",\n    ".join(f"({g}, {s})" for g, s in t.stmts)
        ret = ", ".join(f'("{k}", "{v}")' for k, v in t.ret)
        out.append(f"def prog_{cls} : ClassProg :=\n  {{ init := [{init}],\n    prog := [\n    {stm}],\n    ret := [{ret}],\n    lab := \"{t.lab}\" }}")
        summary[cls] = {"run_defined_in": owner, "statements": len(t.stmts), "fields": [k for k, _ in t.ret]}
    out.append("end PV.Hc.Gen")
    return "\n".join(out) + "\n", summary


def write(repo, lean_dir):
    """returns (ok, message, summary)"""
    path = os.path.join(lean_dir, "PyomaVerif", "Generated", "HcProgs.lean")
    try:
        text, summary = translate(repo)
    except (Fail, SyntaxError, IndexError, ValueError) as e:
        return False, f"translator failed closed: {e}", {}
    old = open(path).read() if os.path.exists(path) else None
    if old != text:
        open(path, "w").write(text)
    return True, "ok", summary


if __name__ == "__main__":
    import sys

    here = os.path.dirname(os.path.dirname(os.path.abspath(__file__)))
    repo = os.environ.get("PYOMA2_REPO", "/repo")
    if "--write" in sys.argv:
        ok, msg, s = write(repo, os.path.join(here, "lean"))
        print(msg, s)
        sys.exit(0 if ok else 1)
    text, s = translate(repo)
    print(text)
    print(s, file=sys.stderr)
