"""C17 — frequency variance of covariance-driven SSI = first-order propagation of the Hankel
covariance factor (ssi.build_hank [T], ssi.SSI_fast [Q1..Q4], ssi.SSI_poles [Fn_cov])."""
import contextlib
import inspect
import re
import sys

import math

import numpy as np

from common import Cvec, Cx, R, Rmat, Rvec, cfl, fl, flmat, max_rel_err

from common import wiring_pre_build as pre_build  # noqa: E402,F401

LEAN_MODULES = ["PyomaVerif.Props.C17", "PyomaVerif.Props.C17Jac", "PyomaVerif.Props.C17Vec", "PyomaVerif.Mutants.C17", "PyomaVerif.Mutants.C17Vec", "PyomaVerif.Props.WiringRun", "PyomaVerif.Props.WiringCalls", "PyomaVerif.Props.C17Table", "PyomaVerif.Mutants.C17Table", "PyomaVerif.Props.C17Cell", "PyomaVerif.Props.C12Build", "PyomaVerif.Props.C17Stored"]
THEOREMS = [
    # clause 1 on the function itself (Model/BuildHank.buildHank, op build_hank, stream build_hank[unc-guard]): calc_unc with a method
    # other than cov_mm never returns; a second component other than None only for cov_mm with calc_unc is True; the returned
    # factor is covFactor of the stacks and of the N the function itself formed
    "PV.C12.C12_dispatch_attrUnc",
    "PV.C12.C17_unc_only_cov_mm",
    "PV.C12.C17_build_factor",
    # the exact sequence of core-routine calls of the run()/mpe() body and the exact set of parameters bound at each (regenerated call table)
    "PV.WiringCalls.C12_ssidat_run_calls",
    # call-site wiring of the class layer, regenerated from /repo on every run (translate_wiring.py)
    "PV.WiringRun.C01_run_realisation",
    "PV.C17.C17_factor_shape",
    "PV.C17.C17_factor_entry",
    "PV.C17.C17_block_entry",
    "PV.C17.C17_block_mean",
    "PV.C17.C17_factor_gram",
    "PV.C17.C17_factor_gram_centered",
    "PV.C17.C17_vec_convention_left",
    "PV.C17.C17_vec_convention_right",
    "PV.C17.C17_vec_convention",
    "PV.C17.C17_vecR_eq_vecC_transpose",
    "PV.C17.C17_ufx_linear",
    "PV.C17.C17_additive",
    "PV.C17.C17_additive_abs",
    "PV.C17.C17_eig_sens",
    "PV.C17.C17_realisation_sens",
    "PV.C17.C17_realisation_sens_eig",
    "PV.C17.C17_realisation_sens_consistent",
    # depth extension (Props/C17Jac.lean): the (f, xi) Jacobian and the singular-triple sensitivity
    "PV.C17.C17_jfx_chain",
    "PV.C17.C17_fx_jacobian",
    "PV.C17.C17_ufx_is_derivative",
    "PV.C17.C17_eig_sens_realisation",
    "PV.C17.C17_sv_sigma_sens",
    "PV.C17.C17_sv_sens",
    "PV.C17.C17_sv_sens_exists",
    "PV.C17.C17_kiArg_bridge",
    "PV.C17.C17_johT_column",
    "PV.C17.C17_johT_first_order",
    # vectorised link (Props/C17Vec.lean): Q1..Q3, S4_n, Pnn, Kronecker contraction of SSI_poles = first-order eigenvalue
    # perturbation; Fn_cov = sum of squared directional derivatives
    "PV.C17.C17_vec_AXB",
    "PV.C17.C17_pnn_commutation",
    "PV.C17.C17_selections",
    "PV.C17.C17_q123_entries",
    "PV.C17.C17_johT_contract",
    "PV.C17.C17_Q_unvec",
    "PV.C17.C17_ooArg_value",
    "PV.C17.C17_first_order_inverse_exists",
    "PV.C17.C17_A_first_order",
    "PV.C17.C17_lambda_first_order",
    "PV.C17.C17_fastA_normal_eq",
    "PV.C17.C17_lambda_first_order_qr",
    "PV.C17.C17_lambda_first_order_bundled",
    "PV.C17.C17_scaling_direction",
    "PV.C17.C17_variance_is_sum_of_squares",
    "PV.C17.ExVec.ident",
    "PV.C17.ExScale.ident2",
    "PV.Mutants.C17Vec.coded_is_zero",
    "PV.Mutants.C17Vec.kron_swapped_fails",
    "PV.Mutants.C17Vec.no_perm_q2_fails",
    "PV.Mutants.C17.rowmajor_entry_fails",
    "PV.Mutants.C17.rowmajor_selection_fails",
    "PV.Mutants.C17.vomOld_not_singular_vector",
    "PV.Mutants.C17.blockOld_mean_fails",
    "PV.Mutants.C17.scale_mutant_fails",
    # Fn_cov / Xi_cov table assembly: cell (jj, ii) = |poleVar| of the jj-th eigen-triple of the pass of order ii (Model/Poles.lean ssiPoles; stream ssi.SSI_poles[cov values] in c01.py)
    "PV.Poles.ssiPoles_spec",
    "PV.C17Cell.var00_ufxAt",
    "PV.C17Cell.C17_fncov_cell",
    "PV.C17Cell.ex_ok",
    "PV.C17Cell.ex_cell",
    # structure (Props/C17Table.lean): the Fn_cov / Xi_cov tables, the factor of build_hank fed into the capstone, which columns
    # enter which block (clipped last block), fxMap = the pole map of ac2mp
    "PV.C17.C17_covFx_is_poleVar",
    "PV.C17.C17_table_cells",
    # the two models of the Fn_cov loop (covTables / ssiPoles.fnCov) return the same tables; the table as stored by run()
    "PV.C17Stored.covTables_cells",
    "PV.C17Stored.covTables_eq_ssiPoles_fnCov",
    "PV.C17Stored.C17_stored",
    "PV.C17.C17_table_index_error",
    "PV.C17.C17_table_variance",
    "PV.C17.C17_factor_column_is_vec",
    "PV.C17.C17_fncov_of_factor",
    "PV.C17.C17_fncov_of_build_hank",
    "PV.C17.C17_blockEst_explicit",
    "PV.C17.C17_block_columns",
    "PV.C17.C17_block_mean_general",
    "PV.C17.C17_block_mean_clipped",
    "PV.C17.C17_last_block_bias",
    "PV.C17.C17_fxMap_is_ac2mp",
    "PV.C17.C17_fxMap_fnOf_xiOf",
    # existence of the first-order identification (simple eigenvalue) and the composed statement from value-level contracts
    "PV.C17.C17_eig_first_order_exists",
    "PV.C17.C17_first_order_ident_exists",
    "PV.C17.C17_fncov_of_factor_exact",
    "PV.C17.C17_fncov_of_build_hank_exact",
    "PV.C17.ExTab.ident2_any",
    "PV.C17.ExReal.svExact",
    "PV.Mutants.C17Table.shifted_column_fails",
    "PV.Mutants.C17Table.mispaired_eigvec_differs",
    "PV.Mutants.C17Table.width_division_fails",
]
RULE = (
    "correspondence: build_hank(cov_mm, calc_unc=True) on small-integer / float records (1..3 channels, reference subset, "
    "br 1..4, nb 2..7 incl. nb | N and the malformed nb = 0, 1, > N) vs the exact-rational model at 1e-12; numpy reshape "
    "orders and the np.kron selections of SSI_fast vs the index-level model (exact on integers); the `Vom = ...` "
    "statement of the current source evaluated on a recorded V1_t vs the model; Q1..Q4 of SSI_fast given the recorded "
    "svd/inv outputs at 1e-8 and the inv arguments at 1e-10; Fn_cov of SSI_poles vs the model read-out "
    "|cov[0,0]| = sum of per-column squares given harness-replicated Jfx and row weights at 1e-9; the whole TABLES Fn_cov and "
    "Xi_cov (NaN pattern exactly, values at 1e-9) vs the model of the two write loops (`unc_table`) on the code's Q1..Q3 and "
    "the per-order recorded ac2mp / abs / inv outputs; the block estimates recovered from T vs the explicit sums over the "
    "column ranges the model names (`unc_blocks`; nb | N, nb not | N with and without left-over columns) at 1e-11; every intermediate of "
    "the uncertainty loop of SSI_poles (Pnn, S4_n exactly; inv argument, PnQ1, PnQ2_Q3, Qi, JaohT, Jfx_l, Ufx, cov_fx[0,0], "
    "Fn_cov at 1e-9; locals recorded by a line tracer at the statement `Fn_cov[jj, ii] = ...`) vs the model pass `unc_pole` "
    "run on the code's Q1..Q3 and the recorded inv / eig / log / abs outputs (measured worst 3e-14 over the thorough tier). "
    "oracle: central finite differences of the real identification (SSI_fast + SSI_poles without uncertainty) at two "
    "steps agreeing to 1e-3, against sqrt(Fn_cov) for explicit single/multi-column factors (rtol 5e-3; measured worst "
    "4.4e-4) on exact-low-rank-plus-noise and data-estimated Hankel matrices; the factor of build_hank against the "
    "column-stacked scaled deviations of independently computed block-wise estimates (1e-9); the data factor end to end. "
    "distinct = distinct (kind, l, r, br, ordmax, columns)"
)
EXTRA_TRUSTED = [
    "np.linalg.svd / np.linalg.inv / scipy.linalg.eig / np.linalg.qr outputs (recorded and passed to the model); np.sqrt, np.log",
    "the harness replication of Jfx and of the complex row weights of SSI_poles in the `unc_var` comparison (checked only through the final Fn_cov; the `unc_pole` comparison uses the model's own Pnn, S4_n, eq. 43/44 and Jfx_l)",
    "np.conj, np.real, np.imag, np.abs, np.pi (values passed to / applied by the model as given)",
]
ASSUMPTIONS = [
    "the closed form of the singular-vector sensitivities (eqs 28-34) is proved to be the unique first-order (dual-number) solution of the singular-triple equations, for the model's kiArg/johT (C17_sv_sens, C17_johT_first_order), with Ki an exact inverse; differentiability of the SVD triple itself (implicit-function step) is not proved",
    "the 2x2 Jacobian Jfx_l is proved to be the Frechet derivative of (Re, Im lam_d) -> (fn, 100*xi) off the branch cut (C17_fx_jacobian); the Lean transcription `jfx` of the three coded matrices is now part of Model/Unc.lean and executed by the driver (`unc_pole`) against the traced Jfx_l",
    "the link of C17_eig_sens / C17_realisation_sens to SSI_fast/SSI_poles (Q1..Q3, S4_n, Pnn, np.kron(phi, I), OO, chi) is proved (Props/C17Vec.lean: C17_Q_unvec, C17_A_first_order, C17_lambda_first_order[_qr], C17_variance_is_sum_of_squares) under the recorded-factor contracts: exact SVD triples for the first n singular values (H v = s u, u^T H = s v^T, unit vectors), Ki an exact inverse of eq. 28, rs = 1/sqrt(s) exact, Obs = Uom diag(sqrt s), OO an exact inverse of O_p^T O_p, QR exact (Q^T Q = 1, R upper triangular, inv(R[:n,:n]) exact) or equivalently A_n the normal-equation solution, an exact eigen-triple (lam_d, r_eigvt, conj(l_eigvt)) with chi.phi != 0, exact np.pi/np.log/np.abs in Jfx_l; the statement is for ANY first-order (dual-number) identification of H + eps*unvec(T[:,k]) extending those factors",
    "existence of the first-order identification is now proved from the value-level contracts for a SIMPLE eigenvalue (C17_eig_first_order_exists: rank-nullity; C17_first_order_ident_exists: exact singular triples b < n, exact Ki/OO, exact eigen-triple with one-dimensional eigenspace => FirstOrderIdent for every direction; instantiated at order 2 for arbitrary directions, ExTab.ident2_any); C17_fncov_of_factor_exact / C17_fncov_of_build_hank_exact state the capstone for the factor covFactor/buildHankUnc builds and for the table cell covTables writes with no first-order object assumed. Still not proved: the analytic step that the dual-number epsilon-part is the derivative of the floating-point pipeline (differentiability of svd/eig as functions of H); no record whose Hankel matrix has a rational SVD was found, so the exactness hypotheses are exhibited jointly at the covFactor level (ExReal), not for stacked data coming from hankYf/hankYp",
    "when nb divides N the last block of build_hank has Nb-1 columns but is divided by Nb (slice clipping, mirrored by the model): C17_block_columns says which columns enter which block for every nb, N; C17_last_block_bias states the factor (Nb-1)/Nb; C17_block_mean_clipped shows the block estimates then average to Hank exactly; the factor oracle still uses nb not dividing N",
    "step = 1 (the SSI routines crash for other steps)",
]

DT = 0.01
FD_STEPS = (1e-5, 1e-6)
FD_AGREE = 1e-3
TOL = 5e-3


def _ssi():
    from pyoma2.functions import ssi

    return ssi


# --------------------------------------------------------------------------- generators
def gen_record(ctx, lmax=3, pmax=4, nmin=30, nmax=70, ints=None):
    rng = ctx.rng
    l = rng.randint(1, lmax)
    r = rng.randint(1, l)
    ref = sorted(rng.sample(range(l), r))
    p = rng.randint(1, pmax)
    Nd = rng.randint(max(nmin, 2 * p + 8), nmax)
    g = ctx.nprng()
    if ints is None:
        ints = rng.random() < 0.5
    if ints:
        Y = g.integers(-4, 5, size=(l, Nd)).astype(float)
    else:
        Y = g.standard_normal((l, Nd))
    return Y, ref, p


def gen_system(g, l, n):
    """stable state-space model with well separated poles"""
    for _ in range(50):
        A = g.standard_normal((n, n))
        ev = np.linalg.eigvals(A)
        A = A / (np.abs(ev).max() * g.uniform(1.02, 1.3))
        ev = np.linalg.eigvals(A)
        sep = min([abs(ev[a] - ev[b]) for a in range(n) for b in range(a)], default=1.0)
        if sep > 0.08 and np.abs(ev).min() > 0.1:
            break
    C = g.standard_normal((l, n))
    return A, C


def gen_system_equal_fn(g, l, n):
    """as gen_system, but two of the modes share the natural frequency |ln(lambda)|/dt and differ in damping only
    (two distinct, well separated poles with the same fn at the same model order)"""
    assert n >= 4
    for _ in range(200):
        w = g.uniform(0.8, 2.2)
        x1, x2 = g.uniform(0.01, 0.06), g.uniform(0.2, 0.45)
        lam = [np.exp(w * (-x + 1j * np.sqrt(1 - x * x))) for x in (x1, x2)]
        rest = list(g.uniform(0.15, 0.9, n - 4) * g.choice([-1.0, 1.0], n - 4))
        ev = lam + [z.conjugate() for z in lam] + rest
        sep = min(abs(ev[a] - ev[b]) for a in range(n) for b in range(a))
        if sep > 0.1:
            break
    D = np.zeros((n, n))
    for k, z in enumerate(lam):
        D[2 * k : 2 * k + 2, 2 * k : 2 * k + 2] = [[z.real, z.imag], [-z.imag, z.real]]
    for k, z in enumerate(rest):
        D[4 + k, 4 + k] = z
    Q, _ = np.linalg.qr(g.standard_normal((n, n)))
    S = Q @ np.diag(g.uniform(0.7, 1.4, n)) @ np.linalg.qr(g.standard_normal((n, n)))[0]
    return S @ D @ np.linalg.inv(S), g.standard_normal((l, n))


def gen_hankel_lowrank(g, l, r, p, n, noise, equal_fn=False):
    A, C = gen_system_equal_fn(g, l, n) if equal_fn else gen_system(g, l, n)
    G = g.standard_normal((n, r))
    blocks = [C @ np.linalg.matrix_power(A, k) @ G for k in range(2 * p + 2)]
    H = np.block([[blocks[i + j + 1] for j in range(p + 1)] for i in range(p + 1)])
    return H + noise * np.abs(H).max() * g.standard_normal(H.shape)


def gen_data(g, l, n, Nd):
    A, C = gen_system(g, l, n)
    x = np.zeros(n)
    W = g.standard_normal((n, Nd + 200))
    Y = np.zeros((l, Nd + 200))
    for t in range(Nd + 200):
        x = A @ x + W[:, t]
        Y[:, t] = C @ x
    Y = Y[:, 200:]
    return Y + 0.05 * Y.std() * g.standard_normal(Y.shape)


# --------------------------------------------------------------------------- identification wrappers
def ident(H, br, ordmax):
    ssi = _ssi()
    Obs, A, C, *_ = ssi.SSI_fast(H, br, ordmax, step=1)
    Fn, Xi, Phi, Lam, *_ = ssi.SSI_poles(Obs, A, C, ordmax, DT, step=1)
    return Fn, Lam


def ident_unc(H, br, ordmax, T):
    ssi = _ssi()
    nb = T.shape[1]
    Obs, A, C, Q1, Q2, Q3, Q4 = ssi.SSI_fast(H, br, ordmax, step=1, calc_unc=True, T=T, nb=nb)
    Fn, Xi, Phi, Lam, Fn_cov, Xi_cov, _ = ssi.SSI_poles(
        Obs, A, C, ordmax, DT, step=1, calc_unc=True, Q1=Q1, Q2=Q2, Q3=Q3, Q4=Q4
    )
    return dict(Obs=Obs, A=A, C=C, Q=(Q1, Q2, Q3, Q4), Fn=Fn, Lam=Lam, Fn_cov=Fn_cov)


def sv_guard(H, ordmax):
    sv = np.linalg.svd(H, compute_uv=False)
    k = min(ordmax, len(sv) - 1)
    if sv[ordmax - 1] <= 1e-7 * sv[0]:
        return False
    gaps = (sv[:k] - sv[1 : k + 1]) / sv[:k]
    return bool(gaps.min() >= 1e-3) if k > 0 else True


def eig_guard(A):
    ev = np.linalg.eigvals(A)
    n = len(ev)
    sep = min([abs(ev[a] - ev[b]) for a in range(n) for b in range(a)], default=1.0)
    return sep >= 0.05 and np.abs(ev).min() >= 0.05


def fd_table(H, dH, br, ordmax, h):
    """identifications at H ± h·dH"""
    Fp, Lp = ident(H + h * dH, br, ordmax)
    Fm, Lm = ident(H - h * dH, br, ordmax)
    return Fp, Lp, Fm, Lm


def fd_of(tab, ii, lam0, h):
    Fp, Lp, Fm, Lm = tab
    jp = int(np.argmin(np.abs(Lp[:ii, ii] - lam0)))
    jm = int(np.argmin(np.abs(Lm[:ii, ii] - lam0)))
    return (Fp[jp, ii] - Fm[jm, ii]) / (2 * h)


def fd_check(ctx, kind, sig, H, dHs, T, br, ordmax, meta):
    """compare Fn_cov (real code, factor T) with Σ_j (directional derivative along dHs[j])² for every
    order and pole that passes the guards"""
    try:
        res = ident_unc(H, br, ordmax, T)
    except np.linalg.LinAlgError:
        ctx.skipped += 1
        ctx.count("skip_linalg")
        return
    sc = np.abs(H).max()
    tabs = []
    for d in dHs:
        dn = np.abs(d).max()
        tabs.append([(h * sc / dn, fd_table(H, d, br, ordmax, h * sc / dn)) for h in FD_STEPS])
    worst = 0.0
    for ii in range(1, ordmax + 1):
        if not eig_guard(res["A"][ii]):
            ctx.skipped += 1
            ctx.count("skip_eig_separation")
            continue
        for jj in range(ii):
            lam0 = res["Lam"][jj, ii]
            ds = []
            ok = True
            for tab in tabs:
                d1 = fd_of(tab[0][1], ii, lam0, tab[0][0])
                d2 = fd_of(tab[1][1], ii, lam0, tab[1][0])
                ds.append((d1, d2))
            want1 = float(np.sqrt(sum(a * a for a, _ in ds)))
            want2 = float(np.sqrt(sum(b * b for _, b in ds)))
            if not (np.isfinite(want1) and np.isfinite(want2)) or abs(want1 - want2) > FD_AGREE * max(want1, want2) or want1 == 0.0:
                ok = False
            if not ok:
                ctx.skipped += 1
                ctx.count("skip_fd_disagree")
                continue
            got = float(np.sqrt(res["Fn_cov"][jj, ii]))
            ctx.oracle_cases += 1
            ctx.count(f"oracle_{kind}")
            err = abs(got - want2) / max(want2, 1e-300)
            worst = max(worst, err)
            if not (err <= TOL):
                ctx.violation(
                    sig,
                    f"{kind}: reported frequency std {got:.6g} at order {ii}, pole {jj} differs from the first-order "
                    f"propagation {want2:.6g} obtained by central finite differences (ratio {got / want2:.4g}; {len(dHs)} column(s))",
                    {"kind": kind, "H": H.tolist(), "T": T.tolist(), "dHs": [d.tolist() for d in dHs], "br": br,
                     "ordmax": ordmax, "ii": ii, "jj": jj} | meta,
                    observed=got,
                    expected=want2,
                )
                return
    ctx.dist["fd_worst_rel"] = max(ctx.dist.get("fd_worst_rel", 0.0), worst)


# --------------------------------------------------------------------------- independent factor
def expected_factor(Y, Yref, p, nb, order="F", block_scale=1.0):
    """From the property statement: column-stacked deviations of the block-wise moment estimates of the
    Hankel matrix (same lags, normalised by the block length) from the full estimate, times 1/sqrt(nb(nb-1))."""
    Nd = Y.shape[1]
    q = p + 1
    N = Nd - p - q
    ncol = N - 1
    F = np.vstack([Y[:, q + 1 + i : q + 1 + i + ncol] for i in range(p + 1)])
    P = np.vstack([Yref[:, q - j : q - j + ncol] for j in range(p + 1)])
    Hfull = F @ P.T / N
    Nb = N // nb
    cols = []
    for k in range(nb):
        Hk = F[:, k * Nb : (k + 1) * Nb] @ P[:, k * Nb : (k + 1) * Nb].T / Nb * block_scale
        cols.append((Hk - Hfull).reshape(-1, order=order))
    return Hfull, np.column_stack(cols) / np.sqrt(nb * (nb - 1)), [c.reshape(Hfull.shape, order=order) for c in cols]


def factor_check(ctx, Y, ref, p, nb):
    ssi = _ssi()
    Yref = Y[ref, :]
    N = Y.shape[1] - 2 * p - 1
    H, T = ssi.build_hank(Y, Yref, p, "cov_mm", calc_unc=True, nb=nb)
    Hf, E, _ = expected_factor(Y, Yref, p, nb)
    ctx.oracle_cases += 1
    ctx.count("oracle_factor")
    ctx.nontrivial.add(("factor", Y.shape[0], len(ref), p, nb))
    gram_err = max_rel_err(T @ T.T, E @ E.T)
    if T.shape == E.shape and max_rel_err(T, E) <= 1e-9 and gram_err <= 1e-9:
        return True
    sig = "factor-other"
    for order, oname in (("F", ""), ("C", "rowmajor")):
        for bs, bname in ((1.0, ""), (1.0 / N, "blockscale")):
            _, E2, _ = expected_factor(Y, Yref, p, nb, order, bs)
            if T.shape == E2.shape and max_rel_err(T, E2) <= 1e-9:
                sig = "factor-" + "+".join(x for x in (oname, bname) if x)
    ctx.violation(
        sig,
        f"build_hank: the factor T is not the column-stacked scaled deviation of the block-wise Hankel estimates from the "
        f"full estimate (rel. error of T {max_rel_err(T, E):.3g}, of T·Tᵀ {gram_err:.3g}; classification {sig})",
        {"kind": "factor", "Y": Y.tolist(), "ref": list(ref), "p": p, "nb": nb},
        observed=float(np.linalg.norm(T)),
        expected=float(np.linalg.norm(E)),
    )
    return False


# --------------------------------------------------------------------------- correspondence
@contextlib.contextmanager
def recording(names):
    """record (args, result) of np.linalg functions called by the code under test"""
    rec = {n: [] for n in names}
    orig = {n: getattr(np.linalg, n) for n in names}

    def wrap(n):
        def f(*a, **k):
            out = orig[n](*a, **k)
            rec[n].append((a, out))
            return out

        return f

    try:
        for n in names:
            setattr(np.linalg, n, wrap(n))
        yield rec
    finally:
        for n in names:
            setattr(np.linalg, n, orig[n])


@contextlib.contextmanager
def snapshot_poles(names):
    """snapshot the listed locals of ssi.SSI_poles every time the statement `Fn_cov[jj, ii] = ...` is about to run
    (all intermediates of that (ii, jj) pass of the uncertainty loop are then bound)"""
    ssi = _ssi()
    code = ssi.SSI_poles.__code__
    lines, start = inspect.getsourcelines(ssi.SSI_poles)
    targets = {start + i for i, ln in enumerate(lines) if re.match(r"\s*Fn_cov\[jj, ii\]\s*=", ln)}
    snaps = {}

    def local(frame, event, arg):
        if event == "line" and frame.f_lineno in targets:
            loc = frame.f_locals
            snaps[(int(loc["ii"]), int(loc["jj"]))] = {
                k: (np.array(loc[k], copy=True) if isinstance(loc[k], np.ndarray) else loc[k]) for k in names if k in loc
            }
        return local

    def glob(frame, event, arg):
        return local if frame.f_code is code else None

    old = sys.gettrace()
    sys.settrace(glob)
    try:
        yield snaps, bool(targets)
    finally:
        sys.settrace(old)


POLE_LOCALS = ["Pnn", "S4_n", "O_p", "OO", "PnQ1", "PnQ2_Q3", "Qi", "JaohT", "Jfx_l", "Ufx", "cov_fx", "lam_d", "lam_c",
               "l_eigvt", "r_eigvt"]


def corr_pole_pass(ctx, key, inp, Obs, l, ordmax, Qs, snap, inv_rec, ii, jj, fn_cov):
    """one (ii, jj) pass of the uncertainty loop of SSI_poles: every intermediate the code bound (recorded by the
    tracer) against the model run on the same Q1..Q3 and the recorded inv / eig outputs"""
    Q1, Q2, Q3 = Qs
    lam_d, lam_c, chi, phi = snap["lam_d"], snap["lam_c"], np.conj(snap["l_eigvt"][:, jj]), snap["r_eigvt"][:, jj]
    OO = inv_rec[1]
    m = ctx.model(
        "unc_pole", Q1=Rmat(Q1), Q2=Rmat(Q2), Q3=Rmat(Q3), OO=Rmat(OO), Obs=Rmat(Obs), l=l, n=ii, ordmax=ordmax,
        lam=Cx(lam_d[jj]), lamc=Cx(lam_c[jj]), chi=Cvec(chi), phi=Cvec(phi), pi=R(np.pi), dt=R(DT),
        absd=R(np.abs(lam_d[jj])), absc=R(np.abs(lam_c[jj])),
    )
    cm = lambda M: np.array([[cfl(z) for z in row] for row in M])  # noqa: E731
    rm = lambda M: np.array(flmat(M))  # noqa: E731
    ok_sel = np.array_equal(rm(m["Pnn"]), snap["Pnn"]) and np.array_equal(rm(m["S4n"]), snap["S4_n"])
    ctx.corr("SSI_poles[Pnn,S4_n]", ok_sel, inp, None, None, key + (ii,))
    e_arg = max_rel_err(rm(m["ooArg"]), inv_rec[0][0])
    ctx.corr("SSI_poles[inv-arg]", e_arg <= 1e-10 and np.array_equal(OO, snap["OO"]), inp, None, e_arg, key + (ii,))
    errs = {
        "PnQ1": max_rel_err(rm(m["PnQ1"]), snap["PnQ1"]),
        "PnQ2_Q3": max_rel_err(rm(m["PnQ23"]), snap["PnQ2_Q3"]),
        "Qi": max_rel_err(cm(m["Qi"]), snap["Qi"]),
        "JaohT": max_rel_err(cm(m["JaohT"])[0], snap["JaohT"]),
        "Jfx_l": max_rel_err(rm(m["Jfx"]), snap["Jfx_l"]),
        "Ufx": max_rel_err(rm(m["Ufx"]), snap["Ufx"]),
    }
    var = fl(m["var"])
    real = float(snap["cov_fx"][0, 0])
    errs["cov_fx00"] = abs(var - real) / max(abs(real), 1e-300)
    errs["Fn_cov"] = abs(abs(var) - fn_cov) / max(abs(fn_cov), 1e-300)
    worst = max(errs.values())
    ctx.dist["pole_worst_rel"] = max(ctx.dist.get("pole_worst_rel", 0.0), worst)
    ctx.corr("SSI_poles[uncertainty-pass]", worst <= 1e-9, inp, errs, None, key + (ii, jj))


def corr_table(ctx, key, inp, ordmax, Qs, snaps, Fn_cov, Xi_cov):
    """the TABLES Fn_cov, Xi_cov of SSI_poles (allocation, order loop, pole loop, which cell receives which pole's
    |cov_fx[0,0]| / |cov_fx[1,0]|, NaN elsewhere) against the model `covTables` run on the code's Q1..Q3 and, per order,
    the recorded ac2mp (eig / log), abs and inv outputs"""
    Q1, Q2, Q3 = Qs
    orders = []
    for ii in range(1, ordmax + 1):
        sn = snaps[(ii, 0)]
        lam_d, lam_c = sn["lam_d"], sn["lam_c"]
        orders.append({
            "np": int(len(lam_c)), "lamd": Cvec(lam_d), "lamc": Cvec(lam_c), "absd": Rvec(np.abs(lam_d)),
            "absc": Rvec(np.abs(lam_c)), "lv": [Cvec(row) for row in sn["l_eigvt"]],
            "rv": [Cvec(row) for row in sn["r_eigvt"]], "oo": Rmat(sn["OO"]),
        })
    m = ctx.model("unc_table", Q1=Rmat(Q1), Q2=Rmat(Q2), Q3=Rmat(Q3), ordmax=ordmax, pi=R(np.pi), dt=R(DT), orders=orders)
    if m.get("status") != "ok":
        ctx.corr("SSI_poles[Fn_cov-table]", False, inp, m.get("status"), "tables returned")
        return
    worst = 0.0
    ok = True
    for name, real in (("Fn_cov", Fn_cov), ("Xi_cov", Xi_cov)):
        tab = m[name]
        if (len(tab), len(tab[0]) if tab else 0) != real.shape:
            ok = False
            break
        for a in range(real.shape[0]):
            for b in range(real.shape[1]):
                mv, rv = tab[a][b], float(real[a, b])
                if (mv is None) != bool(np.isnan(rv)):
                    ok = False
                elif mv is not None:
                    worst = max(worst, abs(fl(mv) - rv) / max(abs(rv), 1e-300))
    ctx.dist["table_worst_rel"] = max(ctx.dist.get("table_worst_rel", 0.0), worst)
    ctx.count("corr_table_cells", ordmax * (ordmax + 1) // 2)
    ctx.corr("SSI_poles[Fn_cov-table]", ok and worst <= 1e-9, inp, {"worst_rel": worst, "nan_pattern_equal": ok}, None, key + ("table",))


def corr_blocks(ctx):
    """which columns of Yf / Yp enter which block estimate of build_hank (incl. the clipped last block when nb | N and the
    columns left over when it does not): the block estimates recovered from the code's T against (a) the model's
    explicit-sum `blockEstR` and (b) the plain sum of the column products over exactly the range `blockCols` names,
    divided by Nb; columns in `leftoverCols` must not influence T - H-part"""
    ssi = _ssi()
    for _ in range(ctx.n(16, 200)):
        Y, ref, p = gen_record(ctx, nmin=24, nmax=48)
        Yref = Y[ref, :]
        l, Nd = Y.shape
        N = Nd - 2 * p - 1
        if ctx.rng.random() < 0.5:
            divs = [d for d in range(2, 8) if N % d == 0]
            nb = ctx.rng.choice(divs) if divs else ctx.rng.randint(2, 7)
        else:
            nb = ctx.rng.randint(2, 7)
        if N // nb < 1:
            ctx.skipped += 1
            continue
        inp = {"Y": Rmat(Y), "Yref": Rmat(Yref), "p": p, "nb": nb}
        m = ctx.model("unc_blocks", **inp)
        H, T = ssi.build_hank(Y, Yref, p, "cov_mm", calc_unc=True, nb=nb)
        Nb = N // nb
        q = p + 1
        ncol = N - 1
        F = np.vstack([Y[:, q + 1 + i : q + 1 + i + ncol] for i in range(p + 1)])
        P = np.vstack([Yref[:, q - j : q - j + ncol] for j in range(p + 1)])
        kind = "clipped" if N % nb == 0 else ("leftover" if nb * Nb < ncol else "exact")
        ctx.count(f"corr_blocks_{kind}")
        ok = m["N"] == N and m["Nb"] == Nb and m["ncols"] == ncol and len(m["ranges"]) == nb
        worst = 0.0
        used = np.zeros(ncol, dtype=int)
        for k in range(nb):
            a, b = m["ranges"][k]
            used[a:b] += 1
            real_k = (T[:, k] * np.sqrt(nb * (nb - 1)) + H.reshape(-1, order="F")).reshape(H.shape, order="F")
            want = np.zeros(H.shape)
            for t in range(a, b):
                want += np.outer(F[:, t], P[:, t])
            want = want / Nb
            sc = max(np.abs(H).max(), np.abs(want).max(), 1e-300)
            worst = max(worst, np.abs(real_k - want).max() / sc, np.abs(np.array(flmat(m["blocks"][k])) - want).max() / sc)
        la, lb = m["leftover"]
        ok = ok and bool((used[:la] == 1).all()) and bool((used[la:lb] == 0).all()) and lb == ncol
        if kind == "clipped":
            ok = ok and m["ranges"][-1] == [(nb - 1) * Nb, N - 1] and la == lb
        elif kind == "leftover":
            ok = ok and m["ranges"][-1] == [(nb - 1) * Nb, nb * Nb] and lb - la == N % nb - 1
        ctx.dist["blocks_worst_rel"] = max(ctx.dist.get("blocks_worst_rel", 0.0), worst)
        ctx.corr("build_hank[block-columns]", ok and worst <= 1e-11, inp, {"ranges": m["ranges"], "leftover": m["leftover"], "worst": worst},
                 None, (l, len(ref), p, Nd, nb, kind))


def corr_factor(ctx):
    ssi = _ssi()
    for k in range(ctx.n(40, 500)):
        Y, ref, p = gen_record(ctx)
        Yref = Y[ref, :]
        l, Nd = Y.shape
        N = Nd - 2 * p - 1
        u = ctx.rng.random()
        if u < 0.08:
            nb = 0
        elif u < 0.16:
            nb = 1
        elif u < 0.24:
            nb = N + ctx.rng.randint(1, 3)
        elif u < 0.45:
            divs = [d for d in range(2, 8) if N % d == 0]
            nb = ctx.rng.choice(divs) if divs else ctx.rng.randint(2, 7)
        else:
            nb = ctx.rng.randint(2, 7)
        inp = {"Y": Rmat(Y), "Yref": Rmat(Yref), "p": p, "nb": nb}
        m = ctx.model("unc_factor", **inp)
        key = (l, len(ref), p, Nd, nb)
        try:
            H, T = ssi.build_hank(Y, Yref, p, "cov_mm", calc_unc=True, nb=nb)
            impl_status = "ok" if np.isfinite(T).all() else ("nonfinite" if not np.isfinite(T).any() else "mixed")
        except ZeroDivisionError:
            impl_status = "zerodiv"
            H = T = None
        ctx.count(f"corr_factor_{impl_status}" + ("_clipped" if nb >= 2 and impl_status == "ok" and N % nb == 0 else ""))
        if m["status"] != "ok" or impl_status != "ok":
            ctx.corr("build_hank[unc]", m["status"] == impl_status, inp, m["status"], impl_status, key)
            continue
        Tm = np.array(flmat(m["T"])) / np.sqrt(nb * (nb - 1))
        Hm = np.array(flmat(m["H"]))
        ok = T.shape == Tm.shape and max_rel_err(T, Tm) <= 1e-12 and max_rel_err(H, Hm) <= 1e-12
        ctx.corr("build_hank[unc]", ok, inp, {"T": Tm.tolist()}, {"T": T.tolist()}, key)
        if k == 0:
            ctx.sample({"l": l, "ref": ref, "p": p, "Ndat": Nd, "nb": nb, "T_shape": list(T.shape)})


def corr_vec_kron(ctx):
    for _ in range(ctx.n(12, 200)):
        g = ctx.nprng()
        r_, c_ = ctx.rng.randint(1, 5), ctx.rng.randint(1, 5)
        Hm = g.integers(-9, 10, size=(r_, c_)).astype(float)
        m = ctx.model("unc_vec", H=Rmat(Hm))
        okF = [fl(x) for x in m["F"]] == Hm.reshape(-1, 1, order="F").flatten().tolist()
        okC = [fl(x) for x in m["C"]] == Hm.reshape(-1, 1).flatten().tolist()
        ctx.corr("reshape(-1,1,order=F)", okF, Hm.tolist(), m["F"], None, (r_, c_))
        ctx.corr("reshape(-1,1)", okC, Hm.tolist(), m["C"], None, (r_, c_))
        nbc = ctx.rng.randint(1, 3)
        u = g.integers(-5, 6, size=r_).astype(float)
        v = g.integers(-5, 6, size=c_).astype(float)
        T = g.integers(-5, 6, size=(r_ * c_, nbc)).astype(float)
        m = ctx.model("unc_kron_sel", c=c_, n=r_, u=Rvec(u), v=Rvec(v), T=Rmat(T))
        # the two expressions of SSI_fast (eq. 33), with Uom[:, ii] -> u, Vom[:, ii] -> v
        Ti1 = np.dot(np.kron(np.eye(c_), u.T), T)
        Ti2 = np.dot(np.kron(v.T, np.eye(r_)), T)
        ok = np.array_equal(np.array(flmat(m["Ti1"])).reshape(Ti1.shape), Ti1) and np.array_equal(
            np.array(flmat(m["Ti2"])).reshape(Ti2.shape), Ti2
        )
        ok = ok and np.array_equal(np.array(flmat(m["K1"])), np.atleast_2d(np.kron(np.eye(c_), u.T)))
        ok = ok and np.array_equal(np.array(flmat(m["K2"])), np.atleast_2d(np.kron(v.T, np.eye(r_))))
        ctx.corr("kron-selections", ok, {"c": c_, "n": r_, "u": u.tolist(), "v": v.tolist()}, m["Ti1"], Ti1.tolist(), (r_, c_, nbc))


def corr_vom(ctx):
    """the `Vom = ...` statement of the current source against the model of fix_14"""
    ssi = _ssi()
    src = inspect.getsource(ssi.SSI_fast)
    mm = re.search(r"^\s*Vom\s*=\s*(.+)$", src, re.M)
    if not mm:
        ctx.corr("SSI_fast[Vom]", False, "source", None, "no `Vom = ...` statement found")
        return
    expr = mm.group(1).strip()
    for _ in range(ctx.n(6, 60)):
        g = ctx.nprng()
        n = ctx.rng.randint(2, 6)
        o = ctx.rng.randint(1, n)
        V1_t = g.integers(-9, 10, size=(n, n)).astype(float)
        impl = eval(expr, {"np": np}, {"V1_t": V1_t, "ordmax": o})  # noqa: S307 - expression of the code under test
        m = np.array(flmat(ctx.model("unc_vom", Vt=Rmat(V1_t), ordmax=o)))
        ok = impl.shape == m.shape and np.array_equal(impl, m)
        ctx.corr("SSI_fast[Vom]", ok, {"V1_t": V1_t.tolist(), "ordmax": o, "expr": expr}, m.tolist(), impl.tolist(), (n, o))


def corr_q_and_var(ctx):
    ssi = _ssi()
    done = 0
    tries = 0
    want = ctx.n(8, 60)
    while done < want and tries < 10 * want:
        tries += 1
        g = ctx.nprng()
        l = ctx.rng.randint(1, 2)
        r = ctx.rng.randint(1, l)
        p = ctx.rng.randint(2, 3)
        cap = min(4, p * l, (p + 1) * r)
        if cap < 2:
            continue
        ordmax = ctx.rng.randint(2, cap)
        H = gen_hankel_lowrank(g, l, r, p, ordmax + ctx.rng.randint(0, 1), 10 ** g.uniform(-4, -2))
        if not sv_guard(H, ordmax):
            ctx.skipped += 1
            continue
        nbc = ctx.rng.randint(1, 3)
        T = g.standard_normal((H.size, nbc))
        with recording(["svd", "inv"]) as rec:
            Obs, A, C, Q1, Q2, Q3, Q4 = ssi.SSI_fast(H, p, ordmax, step=1, calc_unc=True, T=T, nb=nbc)
        U1, SIG, V1_t = rec["svd"][0][1]
        kis = rec["inv"][-ordmax:]
        O_p, O_m = Obs[: Obs.shape[0] - l, :], Obs[l:, :]
        m = ctx.model(
            "unc_q", H=Rmat(H), T=Rmat(T), Op=Rmat(O_p), Om=Rmat(O_m), l=l, r=r, p=p, ordmax=ordmax, U=Rmat(U1),
            Vt=Rmat(V1_t), sig=Rvec(SIG[:ordmax]), rs=Rvec(1 / np.sqrt(SIG[:ordmax])), Ki=[Rmat(k[1]) for k in kis],
        )
        key = (l, r, p, ordmax, nbc)
        errA = max(max_rel_err(np.array(flmat(a)), k[0][0]) for a, k in zip(m["KiArg"], kis))
        ctx.corr("SSI_fast[inv-arg]", errA <= 1e-10, {"H": H.tolist(), "ordmax": ordmax}, None, errA, key)
        errs = [max_rel_err(np.array(flmat(m[n])), q) for n, q in zip(("Q1", "Q2", "Q3", "Q4"), (Q1, Q2, Q3, Q4))]
        ctx.dist["q_worst_rel"] = max(ctx.dist.get("q_worst_rel", 0.0), max(errs))
        ctx.corr("SSI_fast[Q1..Q4]", max(errs) <= 1e-8, {"H": H.tolist(), "T": T.tolist(), "br": p, "ordmax": ordmax}, errs, None, key)
        # --- variance read-out of SSI_poles
        with snapshot_poles(POLE_LOCALS) as (snaps, found), recording(["inv"]) as rec_p:
            Fn, Xi, Phi, Lam, Fn_cov, Xi_cov, _ = ssi.SSI_poles(Obs, A, C, ordmax, DT, step=1, calc_unc=True, Q1=Q1, Q2=Q2, Q3=Q3, Q4=Q4)
        ii = ctx.rng.randint(1, ordmax)
        fn, xi, phi, lam_c, lam_d, chi, phi_r = ssi.ac2mp(A[ii], C[ii], DT, calc_unc=True)
        jj = ctx.rng.randrange(ii)
        Opn = Obs[: Obs.shape[0] - l, :ii]
        OO = np.linalg.inv(Opn.T @ Opn)
        Pnn = np.zeros((ii * ii, ii * ii))
        for a in range(ii):
            for b in range(ii):
                Pnn[a * ii + b, b * ii + a] = 1.0
        sel = np.hstack([np.eye(ii), np.zeros((ii, ordmax - ii))])
        S4 = np.kron(sel, sel)
        crow = (np.conj(chi[:, jj]) @ OO @ np.kron(phi_r[:, jj], np.eye(ii))) / (np.conj(chi[:, jj]) @ phi_r[:, jj])
        W = crow @ np.hstack([-lam_d[jj] * (Pnn + np.eye(ii * ii)) @ S4, Pnn @ S4, S4])
        lc, ld = lam_c[jj], lam_d[jj]
        M1 = np.array([[1 / (2 * np.pi), 0], [0, 100 / abs(lc) ** 2]])
        M2 = np.array([[lc.real, lc.imag], [-(lc.imag**2), lc.real * lc.imag]])
        M3 = np.array([[ld.real, ld.imag], [-ld.imag, ld.real]])
        J = 1 / (DT * abs(ld) ** 2 * abs(lc)) * (M1 @ M2 @ M3)
        Qs = np.vstack([Q1, Q2, Q3])
        mv = ctx.model("unc_var", J=Rmat(J), wr=Rvec(W.real), wi=Rvec(W.imag), Q=Rmat(Qs))
        var = abs(fl(mv["var"]))
        cols = sum(abs(fl(x)) for x in mv["cols"])
        real = float(Fn_cov[jj, ii])
        ok = abs(var - real) <= 1e-9 * max(abs(real), 1e-300) and abs(cols - real) <= 1e-9 * max(abs(real), 1e-300)
        ctx.corr("SSI_poles[Fn_cov]", ok, {"H": H.tolist(), "T": T.tolist(), "br": p, "ordmax": ordmax, "ii": ii, "jj": jj},
                 {"var": var, "cols": cols}, real, key + (ii,))
        # --- the uncertainty loop of SSI_poles itself (Pnn, S4_n, eq. 44, eq. 43, Jfx_l, Ufx, cov_fx), as traced
        inp_p = {"H": H.tolist(), "T": T.tolist(), "br": p, "ordmax": ordmax}
        if not found or len(snaps) != ordmax * (ordmax + 1) // 2 or len(rec_p["inv"]) != ordmax:
            ctx.corr("SSI_poles[uncertainty-pass]", False, inp_p, None,
                     f"statement `Fn_cov[jj, ii] = ...` traced {len(snaps)} times, inv called {len(rec_p['inv'])} times")
        else:
            picks = {(ii, jj), (ordmax, ctx.rng.randrange(ordmax))}
            for (pi_, pj_) in sorted(picks):
                corr_pole_pass(ctx, key, inp_p | {"ii": pi_, "jj": pj_}, Obs, l, ordmax, (Q1, Q2, Q3), snaps[(pi_, pj_)],
                               rec_p["inv"][pi_ - 1], pi_, pj_, float(Fn_cov[pj_, pi_]))
            corr_table(ctx, key, inp_p, ordmax, (Q1, Q2, Q3), snaps, Fn_cov, Xi_cov)
        done += 1
    ctx.count("corr_q_cases", done)


def corr_unc_guard(ctx):
    """build_hank[dispatch|whole] of harness/c12.py (the whole function against the model function buildHank), the part that
    bears on clause 1: calc_unc in {False, True, 1} x method strings; cov_mm with calc_unc=True and nb = 0, 1, 2.."""
    import c12

    c12.corr_build_hank(ctx, _ssi().build_hank, n_dispatch=ctx.n(24, 200), n_short=0, n_whole=ctx.n(12, 200))


def correspondence(ctx):
    corr_factor(ctx)
    corr_unc_guard(ctx)
    corr_blocks(ctx)
    corr_vec_kron(ctx)
    corr_vom(ctx)
    corr_q_and_var(ctx)


# --------------------------------------------------------------------------- oracle
def _gen_fd_case(ctx, from_data):
    case = _gen_fd_case0(ctx, from_data)
    if case is not None and ctx.rng.random() < 0.5:
        # the record's units are free: the Hankel matrix (and with it the factor) may be many orders of magnitude away
        # from 1; the frequency variance does not depend on that
        a = 10.0 ** ctx.rng.uniform(-7, 4)
        case["H"] = case["H"] * (a * a)
        if "Y" in case:
            case["Y"] = case["Y"] * a
        case["amplitude"] = a
        ctx.count("oracle_amplitude_scaled")
    return case


def _gen_fd_case0(ctx, from_data):
    rng = ctx.rng
    g = ctx.nprng()
    l = rng.randint(1, 3)
    r = rng.randint(1, l)
    p = rng.randint(2, 5)
    cap = min(8, p * l, (p + 1) * r)
    if cap < 2:
        return None
    ordmax = rng.randint(2, cap)
    if from_data:
        n = rng.randint(max(2, ordmax - 1), ordmax + 1)
        Y = gen_data(g, l, n, rng.randint(600, 1500))
        ref = sorted(rng.sample(range(l), r))
        H, _ = _ssi().build_hank(Y, Y[ref, :], p, "cov_mm")
        return dict(l=l, r=r, p=p, ordmax=ordmax, H=H, Y=Y, ref=ref, g=g)
    if ordmax >= 4 and rng.random() < 0.35:
        # two modes of equal natural frequency and different damping, identified (almost) exactly at order n = ordmax
        H = gen_hankel_lowrank(g, l, r, p, ordmax, 10 ** g.uniform(-10, -8), equal_fn=True)
        ctx.count("system_two_modes_equal_fn")
        return dict(l=l, r=r, p=p, ordmax=ordmax, H=H, g=g)
    n = rng.randint(ordmax, ordmax + 2)
    H = gen_hankel_lowrank(g, l, r, p, n, 10 ** g.uniform(-6, -2))
    return dict(l=l, r=r, p=p, ordmax=ordmax, H=H, g=g)


def class_consistency(ctx, it):
    """(4) through the class: the frequency variance SSIcov(calc_unc=True) stores for a retained pole is the variance the
    propagation routines deliver for that pole (verified against finite differences by streams 1-3) - on ordinary noisy
    records, where at every order some poles are rejected by the hard criteria and others kept."""
    from pyoma2.algorithms import SSIcov
    from pyoma2.setup import SingleSetup

    rng = ctx.rng
    g = ctx.nprng()
    ssi = _ssi()
    l = rng.randint(2, 4)
    r = rng.randint(1, l)
    ref = sorted(rng.sample(range(l), r))
    if rng.random() < 0.3:
        rng.shuffle(ref)
    p = rng.randint(3, 6)
    ordmax = rng.randint(4, min(10, p * l, (p + 1) * r)) if min(p * l, (p + 1) * r) >= 4 else None
    if ordmax is None:
        ctx.skipped += 1
        return
    Y = gen_data(g, l, rng.randint(2, 5), rng.randint(700, 1600))
    N = Y.shape[1] - 2 * p - 1
    nb = rng.randint(3, 12)
    if N % nb == 0:
        nb += 1
    fs = 1.0 / DT
    xi_max = rng.choice([0.05, 0.1, 0.2])
    hc = dict(conj=rng.random() < 0.5, xi_max=xi_max, mpc_lim=rng.choice([0.0, 0.5]), mpd_lim=rng.choice([math.pi / 2, 0.6]), cov_max=1e300)
    alg = SSIcov(name="a", br=p, ordmax=ordmax, method="cov_mm", ref_ind=list(ref), calc_unc=True, nb=nb, hc=hc)
    ss = SingleSetup(Y.T.copy(), fs=fs)
    ss.add_algorithms(alg)
    inp = {"class": "SSIcov", "l": l, "ref": ref, "br": p, "ordmax": ordmax, "nb": nb, "hc": {k: (v if not isinstance(v, float) or math.isfinite(v) else str(v)) for k, v in hc.items()},
           "data_seed": f"seed{ctx.seed}#class{it}"}
    try:
        ss.run_by_name("a")
        Yc = alg.data.T  # the very array (values AND memory layout) the class hands on: BLAS sums depend on the layout, and the
        # variances of ill-conditioned noise poles amplify a last-bit difference of H to 1e-6
        H, T = ssi.build_hank(Yc, Yc[ref, :], p, "cov_mm", calc_unc=True, nb=nb)
        Obs, A, C, Q1, Q2, Q3, Q4 = ssi.SSI_fast(H, p, ordmax, step=1, calc_unc=True, T=T, nb=nb)
        Fn, Xi, Phi, Lam, Fn_cov, Xi_cov, _ = ssi.SSI_poles(Obs, A, C, ordmax, alg.dt, step=1, calc_unc=True, Q1=Q1, Q2=Q2, Q3=Q3, Q4=Q4)
    except np.linalg.LinAlgError:
        ctx.skipped += 1
        return
    res = alg.result
    Fc, Vc = np.asarray(res.Fn_poles, float), np.asarray(res.Fn_poles_cov, float)
    ctx.oracle_cases += 1
    ctx.count("class_consistency_runs")
    kept = ~np.isnan(Fc)
    rejected_before_kept = 0
    for o in range(Fc.shape[1]):
        col = kept[:, o]
        if col.any():
            first_kept = int(np.argmax(col))
            last_kept = int(len(col) - 1 - np.argmax(col[::-1]))
            rejected_before_kept += int(np.sum(~col[:last_kept] & ~np.isnan(np.asarray(Fn, float)[:last_kept, o])))
    ctx.count("class_consistency_rejected_poles_before_kept_ones", rejected_before_kept)
    ctx.count("class_consistency_kept_poles", int(kept.sum()))
    if Fc.shape != np.asarray(Fn).shape:
        ctx.violation("class-unc-table-shape", f"SSIcov(calc_unc=True): pole table shape {Fc.shape} vs {np.asarray(Fn).shape} from the routines", inp)
        return
    same_f = np.allclose(Fc[kept], np.asarray(Fn, float)[kept], rtol=1e-8, atol=0)
    vf = np.asarray(Fn_cov, float)
    bad = kept & ~(np.isclose(Vc, vf, rtol=1e-3, atol=0) | (np.isnan(Vc) & np.isnan(vf)))  # 1e-3: a re-ordered sum inside the class may move an ill-conditioned noise pole's variance by 1e-6
    if not same_f or bad.any():
        rr, oo = (int(x[0]) for x in np.nonzero(bad)) if bad.any() else (-1, -1)
        ctx.violation(
            "class-fncov-differs-from-propagation",
            f"SSIcov(calc_unc=True): the variance stored for retained pole (row {rr}, order {oo}) is {Vc[rr, oo] if rr >= 0 else None}, the propagation routines "
            f"give {vf[rr, oo] if rr >= 0 else None} for that pole (frequencies equal: {bool(same_f)})", inp,
            observed=float(Vc[rr, oo]) if rr >= 0 else None, expected=float(vf[rr, oo]) if rr >= 0 else None,
        )


def oracle(ctx, scale):
    rng = ctx.rng
    # (1) explicit factors: single direction and several columns
    for k in range(ctx.n(45, 420) * scale):
        case = _gen_fd_case(ctx, from_data=(k % 4 == 3))
        if case is None:
            ctx.skipped += 1
            continue
        H, p, ordmax, g = case["H"], case["p"], case["ordmax"], case["g"]
        if not sv_guard(H, ordmax):
            ctx.skipped += 1
            ctx.count("skip_sv_gap")
            continue
        ncol = 1 if rng.random() < 0.5 else rng.choice([2, 3, 5, 8, 13, 20] if ctx.thorough else [2, 3, 5, 20])
        dHs = [g.standard_normal(H.shape) for _ in range(ncol)]
        # the factor column of a perturbation direction ΔH is vec(ΔH), column stacking (the vectorisation the
        # propagation step expects)
        T = np.column_stack([d.reshape(-1, order="F") for d in dHs])
        kind = ("single" if ncol == 1 else "multi") + ("-data" if "Y" in case else "")
        ctx.nontrivial.add((kind, case["l"], case["r"], p, ordmax, ncol))
        fd_check(ctx, kind, "fncov-fd-explicitT", H, dHs, T, p, ordmax, {"l": case["l"], "r": case["r"]})
    # (2) the factor of build_hank on data
    for k in range(ctx.n(20, 300) * scale):
        Y, ref, p = gen_record(ctx, nmin=40, nmax=120, ints=False)
        N = Y.shape[1] - 2 * p - 1
        nb = rng.randint(2, 20)
        if N % nb == 0 or N // nb < 1:
            ctx.skipped += 1
            ctx.count("skip_clipped_block")
            continue
        factor_check(ctx, Y, ref, p, nb)
    # (3) data factor end to end: Fn_cov with T from build_hank vs Σ_k (derivative along own block deviations)²
    for k in range(ctx.n(4, 40) * scale):
        case = _gen_fd_case(ctx, from_data=True)
        if case is None:
            ctx.skipped += 1
            continue
        Y, ref, p, ordmax = case["Y"], case["ref"], case["p"], case["ordmax"]
        N = Y.shape[1] - 2 * p - 1
        nb = rng.randint(2, 12)
        if N % nb == 0:
            nb += 1
        H, T = _ssi().build_hank(Y, Y[ref, :], p, "cov_mm", calc_unc=True, nb=nb)
        if not sv_guard(H, ordmax):
            ctx.skipped += 1
            ctx.count("skip_sv_gap")
            continue
        _, E, devs = expected_factor(Y, Y[ref, :], p, nb)
        dHs = [d / np.sqrt(nb * (nb - 1)) for d in devs]
        ctx.nontrivial.add(("end-to-end", case["l"], case["r"], p, ordmax, nb))
        fd_check(ctx, "data-factor", "fncov-fd-data", H, dHs, T, p, ordmax, {"l": case["l"], "r": case["r"], "nb": nb})
    _oracle_class(ctx, scale)


def _oracle_class(ctx, scale):
    for it in range(ctx.n(6, 60) * scale):
        class_consistency(ctx, it)
        if any(v["sig"].startswith("class-") for v in ctx.violations):
            return


def replay(rec):
    v = rec["violation"]
    inp = v["input"]
    print("replaying", v["sig"], "-", v["what"])

    class C:
        oracle_cases = 0
        skipped = 0
        dist = {}
        nontrivial = set()
        n_viol = 0

        def count(self, *a, **k):
            pass

        def violation(self, sig, what, *a, **k):
            self.n_viol += 1
            print("VIOLATION reproduced:", sig, "-", what)

    c = C()
    if inp.get("kind") == "factor":
        factor_check(c, np.array(inp["Y"], float), inp["ref"], inp["p"], inp["nb"])
    else:
        H = np.array(inp["H"], float)
        fd_check(c, inp["kind"], v["sig"], H, [np.array(d, float) for d in inp["dHs"]], np.array(inp["T"], float),
                 inp["br"], inp["ordmax"], {})
    if not c.n_viol:
        print("not reproduced (property holds on this input with the current tree)")
    return 1 if c.n_viol else 0
