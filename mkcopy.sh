#!/bin/sh
# mkcopy.sh <id>: private working copy of /verif for a builder agent
set -e
mkdir -p /tmp/w/$1
rsync -a --exclude .lake --exclude .git --exclude replays --exclude __pycache__ /verif/ /tmp/w/$1/verif/
echo /tmp/w/$1/verif
