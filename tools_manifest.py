#!/usr/bin/env python3
"""Regenerates MANIFEST.json from the table below and validates it (python3-vt has jsonschema)."""
import json, os, sys
HERE = os.path.dirname(os.path.abspath(__file__))
PROPS = [json.loads(l)["id"] for l in open(os.path.join(HERE, "properties.jsonl"))]
CLAIMED = json.load(open(os.path.join(HERE, "claims.json")))
checks = []
for pid in PROPS:
    if pid in CLAIMED:
        c = CLAIMED[pid]
        checks.append({
            "property_id": pid,
            "quick_cmd": f"./check {pid} --tier quick",
            "thorough_cmd": f"./check {pid} --tier thorough",
            "evidence_file": f"evidence/{pid}.json",
            "replay_cmd_template": f"./check {pid} --replay {{path}}",
            "engine": "lean4-model+correspondence",
            "level_claimed": {"category": "proof", "text": c["text"], "design_ref": c.get("design_ref", f"DESIGN.md section 4, {pid}")},
            "level_note": c["note"],
            "technique": c["technique"],
        })
na = [{"property_id": p, "reason": "check not built yet in this round; see DESIGN.md section 4 for the planned theorems"} for p in PROPS if p not in CLAIMED]
m = {
    "version": 1,
    "setup_cmd": "/venv/bin/python harness/translate_all.py --write && cd lean && lake build",
    "hooks": {
        "guard": "PYOMA2_VERIF",
        "enable": "no source hooks are needed: the checks import pyoma2 from /repo/src in-process",
        "baseline_off_cmd": "cd /repo && /venv/bin/python -m pytest -ra -q -p no:cacheprovider --timeout=900 --continue-on-collection-errors",
        "source_commits": [],
        "add_only": True,
    },
    "engines": [{"name": "lean4-model+correspondence", "path": "lean/", "serves_properties": sorted(CLAIMED),
                 "kind_free_text": "Lean 4 theorems about an executable model (lean/PyomaVerif), tied to /repo on every run by a differential correspondence harness (harness/) and by seven fail-closed Python-AST to Lean translators (harness/translate_*.py, run by translate_all.py): hard-criteria statements of the run() bodies, call-site wiring of the class layer, defaults of run parameters / methods / functions, stores and calls of the setup layer and algorithm protocol, call sites inside functions/fdd.py, the dialog's event and state-writer tables, the geometry entry points - obligations over the regenerated tables are kernel-evaluated theorems"}],
    "checks": checks,
    "notes": "exit 0 = held; exit 1 + VIOLATION line; exit 2 = infrastructure failure (never a VIOLATION). known_findings.json lists recorded findings and fixed defects.",
}
if na:
    m["not_applicable"] = na
json.dump(m, open(os.path.join(HERE, "MANIFEST.json"), "w"), indent=1)
try:
    import jsonschema
    jsonschema.validate(m, json.load(open("/root/.vp/MANIFEST.schema.json")))
    print("MANIFEST valid;", len(checks), "checks,", len(na), "not applicable")
except ImportError:
    print("jsonschema not available; written without validation")
