#!/bin/sh
# integrate.sh <id>: copy the files a builder agent created in /tmp/w/<id>/verif into /verif (never overwrites)
set -e
SRC=/tmp/w/$1/verif
for d in lean/PyomaVerif/Model lean/PyomaVerif/Lemmas lean/PyomaVerif/Props lean/PyomaVerif/Mutants lean/PyomaVerif/Ops lean/PyomaVerif/Generated harness corpus; do
  [ -d "$SRC/$d" ] || continue
  mkdir -p /verif/$d
  rsync -a --ignore-existing --exclude __pycache__ "$SRC/$d/" "/verif/$d/"
done
[ -d "$SRC/proposed_fixes" ] && mkdir -p /verif/proposed_fixes/$1 && cp -n "$SRC"/proposed_fixes/* /verif/proposed_fixes/$1/ 2>/dev/null
echo "copied; files differing from /verif originals (not overwritten):"
for d in lean/PyomaVerif harness; do diff -rq "$SRC/$d" "/verif/$d" 2>/dev/null | grep -v "Only in /verif" | grep -v __pycache__ || true; done
