#!/venv/bin/python
"""Evaluate behaviour-preserving rewrites: for every <src>/p*/patch.diff apply it to a scratch worktree of /repo HEAD and run all
(or the given) registered quick checks against it.  A harmless rewrite must give exit 0 everywhere; anything else is listed.
usage: eval_harmless.py --src /tmp/hr3 --out /tmp/hr3/results_1.json [--only p01,p02] [--checks C01,C02]
env: EVAL_WORKTREE (scratch worktree), VERIF_ROOT (copy of /verif that runs the checks)"""
import argparse, glob, json, os, subprocess, sys

EVAL = os.environ.get("EVAL_WORKTREE", "/tmp/mut/evalh")
VROOT = os.environ.get("VERIF_ROOT", "/verif")


def sh(cmd, cwd=None, env=None, timeout=3600):
    e = dict(os.environ)
    e.update(env or {})
    p = subprocess.run(cmd, shell=True, cwd=cwd, env=e, capture_output=True, text=True, timeout=timeout)
    return p.returncode, p.stdout + p.stderr


def main():
    ap = argparse.ArgumentParser()
    ap.add_argument("--src", required=True)
    ap.add_argument("--out", required=True)
    ap.add_argument("--only", default="")
    ap.add_argument("--checks", default="")
    a = ap.parse_args()
    checks = [c for c in a.checks.split(",") if c] or [f"C{i:02d}" for i in range(1, 21)]
    only = [x for x in a.only.split(",") if x]
    head = sh("git -C /repo rev-parse HEAD")[1].strip()
    if not os.path.isdir(EVAL):
        sh(f"git -C /repo worktree add --detach {EVAL} {head}")
    res = json.load(open(a.out)) if os.path.exists(a.out) else {}
    for d in sorted(glob.glob(os.path.join(a.src, "*"))):
        k = os.path.basename(d)
        if not os.path.exists(os.path.join(d, "patch.diff")) or (only and k not in only):
            continue
        sh(f"git -C {EVAL} checkout -q --detach {head} && git -C {EVAL} checkout -q -- . && git -C {EVAL} clean -fdq")
        rc, out = sh(f"git -C {EVAL} apply {d}/patch.diff")
        r = res.setdefault(k, {})
        r["applies"] = rc == 0
        if rc != 0:
            r["apply_error"] = out[-300:]
            continue
        for c in checks:
            crc, cout = sh(f"./check {c} --tier quick", cwd=VROOT, env={"PYOMA2_REPO": EVAL, "VERIF_EVIDENCE_DIR": f"/tmp/verif_evidence_h_{os.getpid()}"})
            r[c] = {"rc": crc, "out": [l for l in cout.splitlines() if l.startswith("VIOLATION") or "-> exit" in l or l.startswith("  ")][-4:]}
            json.dump(res, open(a.out, "w"), indent=1)
        bad = [c for c in checks if r[c]["rc"] != 0]
        print(k, "non-zero:", bad, flush=True)
    sh(f"git -C {EVAL} checkout -q -- .")
    sh("/venv/bin/python harness/translate_all.py --write", cwd=VROOT)


if __name__ == "__main__":
    sys.exit(main())
