#!/venv/bin/python
"""Evaluate seeded mutants: for every /tmp/mut/<prop>/out/m*/ (or /verif/seeded/<id>/) check that the patch applies to
/repo's HEAD, the demonstration passes without it and fails with it, the pinned test baseline still passes with it, and
run the property's registered quick check against the patched tree (in a scratch worktree, via PYOMA2_REPO).
usage: eval_mutants.py [--props C12,C09] [--skip-tests] [--src /tmp/mut | /verif/seeded] [--out results.json]"""
import argparse
import glob
import json
import os
import subprocess
import sys
import xml.etree.ElementTree as ET

EVAL = os.environ.get("EVAL_WORKTREE", "/tmp/mut/eval")  # scratch worktree of /repo
VROOT = os.environ.get("VERIF_ROOT", "/verif")  # which copy of the machinery runs the checks
PY = "/venv/bin/python"


def sh(cmd, cwd=None, env=None, timeout=3600):
    e = dict(os.environ)
    if env:
        e.update(env)
    p = subprocess.run(cmd, shell=True, cwd=cwd, env=e, capture_output=True, text=True, timeout=timeout)
    return p.returncode, p.stdout + p.stderr


def reset_eval():
    head = sh("git -C /repo rev-parse HEAD")[1].strip()
    if not os.path.isdir(EVAL):
        sh(f"git -C /repo worktree add --detach {EVAL} {head}")
    sh(f"git -C {EVAL} checkout -q --detach {head} && git -C {EVAL} checkout -q -- . && git -C {EVAL} clean -fdq")
    return head


def baseline_ok(root):
    xml = EVAL.rstrip("/") + "_junit.xml"
    sh(f"cd {root} && {PY} -m pytest -q -p no:cacheprovider --timeout=900 --continue-on-collection-errors --junitxml={xml}",
       env={"PYTHONPATH": f"{root}/src", "MPLBACKEND": "Agg"}, timeout=1800)
    base = json.load(open("/root/.vp/BASELINE.json"))["stable_pass"]
    ok = set()
    for tc in ET.parse(xml).iter("testcase"):
        if not any(ch.tag in ("failure", "error", "skipped") for ch in tc):
            ok.add(tc.get("classname") + "::" + tc.get("name"))
    return [b for b in base if b not in ok]


def main():
    ap = argparse.ArgumentParser()
    ap.add_argument("--props", default="")
    ap.add_argument("--skip-tests", action="store_true")
    ap.add_argument("--src", default="/tmp/mut")
    ap.add_argument("--out", default="/tmp/mut/results.json")
    ap.add_argument("--extra-checks", default="", help="comma list of further checks to run against each mutant")
    a = ap.parse_args()
    props = [p for p in a.props.split(",") if p]
    res = json.load(open(a.out)) if os.path.exists(a.out) else {}
    if a.src.rstrip("/").endswith("seeded"):
        dirs = sorted(glob.glob(os.path.join(a.src, "*")))
    else:
        dirs = sorted(glob.glob(os.path.join(a.src, "c*", "out", "m*")))
    for d in dirs:
        if not os.path.exists(os.path.join(d, "patch.diff")):
            continue
        meta = json.load(open(os.path.join(d, "meta.json"))) if os.path.exists(os.path.join(d, "meta.json")) else {}
        prop = meta.get("property") or os.path.basename(os.path.dirname(os.path.dirname(d))).upper()
        if props and prop not in props:
            continue
        key = f"{prop}/{os.path.basename(d)}" if "out" in d else os.path.basename(d)
        r = {"dir": d, "property": prop, "summary": meta.get("summary", "")[:300]}
        head = reset_eval()
        r["repo_head"] = head[:7]
        demo = os.path.join(d, "demo.py")
        env = {"PYTHONPATH": f"{EVAL}/src", "MPLBACKEND": "Agg"}
        rc0, out0 = sh(f"{PY} {demo}", cwd=EVAL, env=env, timeout=900)
        r["demo_clean_rc"] = rc0
        rc, out = sh(f"git -C {EVAL} apply {d}/patch.diff")
        if rc != 0:
            rc, out = sh(f"git -C {EVAL} apply --3way {d}/patch.diff")
        r["applies"] = rc == 0
        if rc != 0:
            r["apply_error"] = out[-300:]
            res[key] = r
            json.dump(res, open(a.out, "w"), indent=1)
            print(key, "DOES NOT APPLY")
            continue
        rc1, out1 = sh(f"{PY} {demo}", cwd=EVAL, env=env, timeout=900)
        r["demo_patched_rc"] = rc1
        r["demo_patched_tail"] = out1[-300:]
        if not a.skip_tests:
            r["baseline_broken"] = baseline_ok(EVAL)
        for chk in [prop] + [c for c in a.extra_checks.split(",") if c]:
            crc, cout = sh(f"./check {chk} --tier quick", cwd=VROOT, env={"PYOMA2_REPO": EVAL}, timeout=3600)
            lines = [l for l in cout.splitlines() if l.startswith("VIOLATION") or "-> exit" in l or l.startswith("  ")]
            r[f"check_{chk}_rc"] = crc
            r[f"check_{chk}_out"] = lines[-4:]
        sh(f"{PY} harness/translate_all.py --write", cwd=VROOT)  # restore the generated files to /repo's
        res[key] = r
        json.dump(res, open(a.out, "w"), indent=1)
        print(key, "demo", rc0, "->", rc1, "| baseline broken:", r.get("baseline_broken"), "| check rc", r.get(f"check_{prop}_rc"), flush=True)
    reset_eval()


if __name__ == "__main__":
    sys.exit(main())
