#!/bin/sh
# tools_sweep.sh <tier> <seed>...   run every registered check with the given seeds on the tree $PYOMA2_REPO (default /repo),
# evidence to a scratch directory (never to evidence/), one summary line per run on stdout.  Builds the Lean library first
# when .lake is absent (e.g. inside a `vp run` snapshot).  Used for false-alarm sweeps on the unchanged tree.
HERE="$(cd "$(dirname "$0")" && pwd)"; cd "$HERE" || exit 2
TIER="$1"; shift
[ -x lean/.lake/build/bin/driver ] || { /venv/bin/python harness/translate_all.py --write && (cd lean && lake build >/dev/null 2>&1); }
export VERIF_EVIDENCE_DIR="${VERIF_EVIDENCE_DIR:-/tmp/verif_evidence_sweep_$$}"
export VERIF_SKIP_LEANCHECKER=1
P="${SWEEP_PAR:-6}"
for s in "$@"; do
  for i in 01 02 03 04 05 06 07 08 09 10 11 12 13 14 15 16 17 18 19 20; do echo "$s C$i"; done
done | xargs -P "$P" -L 1 sh -c 'out=$(VERIF_SEED=$0 ./check $1 --tier '"$TIER"' 2>&1); rc=$?; echo "seed=$0 $1 rc=$rc | $(echo "$out" | grep -E "VIOLATION|-> exit|INFRA" | tr "\n" " " | cut -c1-400)"'
rm -rf "$VERIF_EVIDENCE_DIR"
