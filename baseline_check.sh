#!/bin/sh
# runs the repository's pinned suite (guard off: there are no hooks) and checks that every test of
# BASELINE.stable_pass still passes
cd /repo && /venv/bin/python -m pytest -ra -q -p no:cacheprovider --timeout=900 --continue-on-collection-errors --junitxml=/tmp/pyoma2_baseline.xml > /tmp/pyoma2_baseline.log 2>&1
/venv/bin/python - <<'PY'
import json, xml.etree.ElementTree as ET
base = json.load(open('/root/.vp/BASELINE.json'))['stable_pass']
t = ET.parse('/tmp/pyoma2_baseline.xml')
ok = set()
for tc in t.iter('testcase'):
    name = tc.get('classname') + '::' + tc.get('name')
    if not any(ch.tag in ('failure', 'error', 'skipped') for ch in tc):
        ok.add(name)
missing = [b for b in base if b not in ok]
print(f"baseline: {len(base) - len(missing)}/{len(base)} stable tests pass")
for m in missing:
    print("  NOT PASSING:", m)
raise SystemExit(1 if missing else 0)
PY
